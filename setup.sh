#!/bin/bash
# Builds the framework from files on disk only (offline).
set -e
cd "$(dirname "$0")"
export GOFLAGS=-mod=mod GOPROXY=off GOSUMDB=off GOTOOLCHAIN=local
mkdir -p bin evidence replays .work
cp /repo/go.sum harness/go.sum 2>/dev/null || true
(cd harness && go build -tags verif -o ../bin/vh .)
# syntax-check every specification module
for m in spec/ArgParse.tla; do :; done
echo setup ok
