#!/usr/bin/env python3
"""Writes catalog/argparse.ndjson: the hand-written declaration catalogue (tree form).
The harness flattens it (vh decls) into the record TLC reads; both sides use the same file."""
import json

def opt(short='', long='', kind='flag', vtype='bool', **kw):
    o = {'kind': kind, 'vtype': vtype}
    if short: o['short'] = short
    if long: o['long'] = long
    o.update(kw)
    return o

def grp(desc, opts=(), groups=(), **kw):
    g = {'desc': desc}
    if opts: g['opts'] = list(opts)
    if groups: g['groups'] = list(groups)
    g.update(kw)
    return g

def cmd(name, style, own=None, extra=(), args=(), cmds=(), **kw):
    c = {'name': name, 'style': style}
    if own is not None: c['own'] = own
    if extra: c['extra'] = list(extra)
    if args: c['args'] = list(args)
    if cmds: c['cmds'] = list(cmds)
    c.update(kw)
    return c

def tree(note, root, nsDelim='.', envDelim='_'):
    return {'id': 0, 'nsDelim': nsDelim, 'envDelim': envDelim, 'root': root, 'note': note}

T = []
# D1 flat: every kind x every spelling
T.append(tree('D1 flat', cmd('app', 'root', extra=[grp('Application Options', [
    opt('a'), opt('b', 'bee'), opt('v', 'verbose', 'counter'),
    opt('s', 'str', 'scalar', 'string'), opt('n', 'num', 'scalar', 'int'),
    opt('l', 'list', 'slice', 'string'), opt('m', 'map', 'map', 'int'),
    opt('c', 'call', 'func1', 'string'), opt('', 'ping', 'func0', '')])])))
# D2 nested namespaced groups
T.append(tree('D2 groups', cmd('app', 'root', extra=[
    grp('Application Options', [opt('x', 'x', 'scalar', 'string')],
        [grp('G', [opt('', 'x', 'scalar', 'string')], [grp('H', [opt('', 'x', 'slice', 'string'), opt('z', 'zed')], ns='h')], ns='g')]),
    grp('Second', [opt('y', 'why')])])))
# D3 commands: scoping, shadowing, aliases, required per level, dispatch
T.append(tree('D3 commands', cmd('app', 'root', extra=[grp('Application Options', [opt('v', 'verbose')])], cmds=[
    cmd('add', 'exec', aliases=['a'], extra=[grp('Add', [opt('v', '', 'counter'), opt('', 'name', 'scalar', 'string', required=True)])], cmds=[
        cmd('remote', 'exec', aliases=['r'], extra=[grp('Remote', [opt('', 'url', 'scalar', 'string'), opt('v', 'vee', 'scalar', 'string')])])]),
    cmd('rm', 'exec', extra=[grp('Rm', [opt('f', 'force')])])])))
# D4 positionals on the parser
T.append(tree('D4 positional', cmd('app', 'root', extra=[grp('Application Options', [opt('o', 'out', 'scalar', 'string')])],
    args=[{'name': 'src', 'vtype': 'string'}, {'name': 'n', 'vtype': 'int'}, {'name': 'rest', 'vtype': 'string', 'slice': True}],
    argSplit=1)))      # declared in two positional-args structs: (src) and (n, rest)
# D5 optional sub-commands, positional on a command, hidden sibling
T.append(tree('D5 optional subcommands', cmd('app', 'root', extra=[grp('Application Options', [opt('q', 'quiet')])], cmds=[
    cmd('run', 'exec', subOpt=True, extra=[grp('Run', [opt('k', 'keep')])],
        args=[{'name': 'opt', 'vtype': 'string'}, {'name': 'file', 'vtype': 'string', 'reqTag': 'yes'}], cmds=[      # an optional positional before a required one
        cmd('fast', 'exec', extra=[grp('Fast', [opt('x', 'xtra')])])]),
    cmd('dbg', 'exec', hidden=True, extra=[grp('Dbg', [])])])))
# D6 optional arguments
T.append(tree('D6 optional arguments', cmd('app', 'root', extra=[grp('Application Options', [
    opt('', 'opt', 'scalar', 'string', optional=True, optvals=['dflt']),
    opt('p', 'pee', 'slice', 'string', optional=True, optvals=['p1', 'p2']),
    opt('f', 'flag')])])))
# D7 required at every level; range on a trailing slice
T.append(tree('D7 required', cmd('app', 'root', extra=[grp('Application Options', [opt('t', 'top', 'scalar', 'string', required=True)])], cmds=[
    cmd('go', 'exec', extra=[grp('Go', [opt('g', 'gee', required=True)])], args=[{'name': 'items', 'vtype': 'string', 'slice': True, 'reqTag': '1-2'}]),
    cmd('sib', 'exec', extra=[grp('Sib', [opt('s', 'ess', 'scalar', 'string', required=True)])])])))
# D8 typed values and choices
T.append(tree('D8 typed', cmd('app', 'root', extra=[grp('Application Options', [
    opt('i', 'i8', 'scalar', 'int8'), opt('u', 'u8', 'scalar', 'uint8'), opt('x', 'hex', 'scalar', 'int64', base=16),
    opt('c', 'choice', 'scalar', 'string', choices=['a', 'ab']), opt('p', 'ptr', 'ptr', 'int')])])))
# D9 non-ASCII names
T.append(tree('D9 non-ascii', cmd('app', 'root', extra=[grp('Application Options', [
    opt('é', 'naïve', 'scalar', 'string'), opt('世', '', 'flag'), opt('k', '界', 'flag')])])))
# D10 tag-declared twin of D3 (non-executable commands; dispatch observed through CommandHandler)
T.append(tree('D10 tag commands', cmd('app', 'root', extra=[grp('Application Options', [opt('v', 'verbose')])], cmds=[
    cmd('add', 'tag', aliases=['a'], own=grp('', [opt('v', '', 'counter'), opt('', 'name', 'scalar', 'string', required=True)]), cmds=[
        cmd('remote', 'tag', aliases=['r'], own=grp('', [opt('', 'url', 'scalar', 'string'), opt('v', 'vee', 'scalar', 'string')]))]),
    cmd('rm', 'tag', own=grp('', [opt('f', 'force')]))])))

# D11 INI-oriented: strings, pointers, string maps, ini-name / no-ini / hidden, nested namespaced group, a command with a group
T.append(tree('D11 ini', cmd('app', 'root', subOpt=True, extra=[grp('Application Options', [
    opt('s', 'str', 'scalar', 'string'), opt('p', 'pstr', 'ptr', 'string'), opt('i', 'pint', 'ptr', 'int'),
    opt('m', 'smap', 'map', 'string'), opt('l', 'list', 'slice', 'string'),
    opt('n', 'num', 'scalar', 'int', base=16, iniName='Number'), opt('d', 'dflt', 'scalar', 'string', defaults=['dv']),
    opt('', 'secret', 'scalar', 'string', noIni=True), opt('', 'hid', 'scalar', 'string', hidden=True), opt('b', 'bool')],
    [grp('Sub', [opt('', 'x', 'scalar', 'string'), opt('', 'ys', 'slice', 'int')], ns='sub')])],
    cmds=[cmd('add', 'exec', subOpt=True, extra=[grp('Add Options', [opt('', 'name', 'scalar', 'string'), opt('t', 'tags', 'slice', 'string')])])])))
# D12 value sources: default tags x0/1/2, env with and without delimiter, env-namespace, presets, on scalar / slice / map / pointer
T.append(tree('D12 sources', cmd('app', 'root', extra=[grp('Application Options', [
    opt('a', 'plain', 'scalar', 'string'),
    opt('b', 'one', 'scalar', 'string', defaults=['d1']),
    opt('c', 'envd', 'scalar', 'string', defaults=['d1'], env='VF_A'),
    opt('l', 'list', 'slice', 'string', defaults=['d1', 'd2'], env='VF_B', envDelim=','),
    opt('m', 'map', 'map', 'string', defaults=['k:d1'], env='VF_C', envDelim=';'),
    opt('p', 'ptr', 'ptr', 'string', defaults=['d1']),
    opt('q', 'pre', 'scalar', 'string', init=['init']),
    opt('r', 'prel', 'slice', 'string', init=['i1', 'i2']),
    opt('f', 'flag')],
    [grp('Env Group', [opt('', 'ge', 'scalar', 'string', env='VF_D')],
         [grp('Env Inner', [opt('', 'gi', 'scalar', 'string', env='VF_E')],
              [grp('Env Leaf', [opt('', 'gl', 'slice', 'string', env='VF_F', envDelim=':')], envNs='L')])], envNs='N')])])))

# D13 optional sub-commands on a nested command only (the root still requires a command); no positionals
T.append(tree('D13 nested optional', cmd('app', 'root', extra=[grp('Application Options', [opt('v', 'verbose')])], cmds=[
    cmd('cfg', 'exec', subOpt=True, aliases=['c'], extra=[grp('Cfg', [opt('k', 'keep'), opt('n', 'name', 'scalar', 'string')])], cmds=[
        cmd('sub', 'exec', extra=[grp('Sub', [opt('s', 'ess')])])]),
    cmd('other', 'exec', extra=[grp('Other', [opt('o', 'oh')])], cmds=[
        cmd('leaf', 'exec', extra=[grp('Leaf', [opt('l', 'ell')])])])])))

# D14 completion: value completers on options and positionals, hidden items, optional sub-commands
T.append(tree('D14 completion', cmd('app', 'root', subOpt=True, extra=[grp('Application Options', [
    opt('v', 'verbose'), opt('V', '', 'flag'), opt('', 'Name', 'flag'), opt('n', 'name', 'scalar', 'cc'), opt('f', 'file', 'slice', 'cc'), opt('p', 'plain', 'scalar', 'string'),
    opt('', 'hid', 'scalar', 'string', hidden=True), opt('x', '', 'flag'), opt('o', 'opt', 'scalar', 'cc', optional=True, optvals=['dflt'])])], cmds=[
    cmd('add', 'exec', aliases=['a'], extra=[grp('Add', [opt('', 'force'), opt('n', 'note', 'scalar', 'string')])], args=[{'name': 'what', 'vtype': 'cc'}]),
    cmd('grp', 'exec', subOpt=True, extra=[grp('Grp', [opt('g', 'gee')])], cmds=[cmd('sub', 'exec', extra=[grp('Sub', [opt('', 'subopt')])])]),
    cmd('secret', 'exec', hidden=True, extra=[grp('Secret', [])])])))

# D15 visibility and layout: hidden option / group / command at each depth, masks, value names, choices, env keys with
# namespaces, described positionals, non-ASCII names and descriptions, a long unbreakable word, an embedded newline
T.append(tree('D15 help', cmd('app', 'root', extra=[grp('Application Options', [
    opt('v', 'verbose', desc='Show verbose debug information'),
    opt('n', 'naïve', 'scalar', 'string', desc='naïve café 世界 Привет', valueName='значение'),
    opt('', 'pass', 'scalar', 'string', desc='the password', defaults=['SECRET1'], mask='****'),
    opt('', 'tok', 'scalar', 'string', desc='the token', defaults=['SECRET2'], mask='-'),
    opt('c', 'color', 'scalar', 'string', desc='colour', choices=['red', 'green'], defaults=['red'], env='COLOR'),
    opt('', 'hid', 'scalar', 'string', desc='hidden option', hidden=True),
    opt('w', '', 'flag', desc='a supercalifragilisticexpialidociouslylongwordthatcannotbebrokenatablank end'),
    opt('', 'nodesc', 'scalar', 'int'),
    opt('', 'cjk', 'flag', desc='日本語の説明文は空白を含まないので強制的に折り返されます'),
    opt('', 'mix', 'flag', desc='aaaaaaaaaébbbbbbbbbé😀ccccccccéddddddddddж 100% sure'),
    opt('m', 'map', 'map', 'string', desc='with\nnewline', init=['b:2', 'a:1', 'd:4', 'c:3'])],
    [grp('Nested', [opt('', 'x', 'scalar', 'string', desc='nested x', env='X')], ns='ns', envNs='NS'),
     grp('Hidden Group', [opt('', 'inhid', 'flag', desc='in hidden group')], hidden=True)])],
    args=[{'name': 'fichier', 'vtype': 'string', 'desc': 'the input file 世界'}, {'name': 'rest', 'vtype': 'string', 'slice': True}],
    cmds=[])))
T.append(tree('D16 help commands', cmd('app', 'root', extra=[grp('Application Options', [opt('v', 'verbose', desc='verbose')])], cmds=[
    cmd('add', 'exec', aliases=['a', 'ad'], desc='add things', extra=[grp('Add Options', [opt('f', 'force', desc='force it'), opt('', 'nom', 'scalar', 'string', desc='le nom', valueName='NOM')],
        [grp('Deep', [opt('', 'deep', 'flag', desc='deep flag')], ns='d')])],
        args=[{'name': 'élément', 'vtype': 'string', 'desc': 'what to add'}],
        cmds=[cmd('remote', 'exec', desc='add a remote', extra=[grp('Remote', [opt('u', 'url', 'scalar', 'string', desc='the url')])]),
              cmd('ghost', 'exec', hidden=True, desc='hidden sub', extra=[grp('Ghost', [opt('', 'boo', 'flag', desc='boo')])])]),
    cmd('rm', 'exec', desc='', extra=[grp('Rm', [opt('r', '', 'flag', desc='recursive')])]),
    cmd('secret', 'exec', hidden=True, desc='hidden command', extra=[grp('Secret', [opt('', 'sec', 'flag', desc='secret flag')])]),
    cmd('zz', 'exec', aliases=['z'], desc='last', extra=[grp('Zz', [])])])))

# D17 crossing names for the INI name preference (ini-name > field name > namespaced long name > short name) across nested groups,
# and command names with upper-case letters in section paths
T.append(tree('D17 ini crossing', cmd('app', 'root', subOpt=True, extra=[grp('Application Options', [
    opt('', 'j', 'scalar', 'string'),                       # F1: long name j
    opt('', 'outer', 'scalar', 'string', iniName='F4'),     # F2: ini-name equal to the field name of a nested option
    opt('q', 'F5', 'scalar', 'string')],                    # F3: long name equal to a nested option's field name
    [grp('Inner', [opt('j', 'jay', 'scalar', 'string'),      # F4: short name j
                   opt('', 'five', 'scalar', 'string', iniName='Q'),   # F5: ini-name equal (case-insensitively) to the short name of F3
                   opt('', 'j2', 'slice', 'string', iniName='jay')])])],     # F6: ini-name equal to the long name of F4
    cmds=[cmd('Add', 'exec', subOpt=True, extra=[grp('Extra Options', [opt('', 'name', 'scalar', 'string')])], cmds=[
              cmd('subCmd', 'exec', extra=[grp('Sub', [opt('', 'leaf', 'scalar', 'string')])])])])))

# D18 three levels of commands with optional sub-commands in the middle, a required option at the bottom, options at every level:
# the tree on which a second ParseArgs of one parser (model parameter PreMode = "cmds") is enumerated after every command path
T.append(tree('D18 deep reuse', cmd('app', 'root', extra=[grp('Application Options', [opt('v', 'verbose')])], cmds=[
    cmd('remote', 'exec', subOpt=True, aliases=['r'], extra=[grp('Remote', [opt('u', 'url', 'scalar', 'string')])], cmds=[
        cmd('branch', 'exec', subOpt=True, extra=[grp('Branch', [opt('b', 'bee', 'slice', 'string')])], cmds=[
            cmd('rename', 'exec', extra=[grp('Rename', [opt('n', 'name', 'scalar', 'string', required=True)])]),
            cmd('drop', 'exec', extra=[grp('Drop', [opt('f', 'force')])])]),
        cmd('ls', 'exec', extra=[grp('Ls', [opt('l', 'long')])])]),
    cmd('init', 'exec', extra=[grp('Init', [opt('q', 'quiet')])])])))

# D19 short names only, on the parser and on a command (the narrowest possible option column), one described positional with a
# non-ASCII name and a text long enough to wrap
T.append(tree('D19 short only', cmd('app', 'root', extra=[grp('Application Options', [
    opt('a', '', 'flag', desc='first flag with a description that is long enough to be wrapped on a narrow terminal'),
    opt('b', '', 'flag', desc='second')])], cmds=[
    cmd('go', 'exec', desc='go somewhere', extra=[grp('Go', [opt('x', '', 'flag', desc='an x that also has quite a few words to say about itself'), opt('y', '', 'flag')])],
        args=[{'name': 'cible', 'vtype': 'string', 'desc': 'the target of the journey, described at some length so that the text wraps around'},
              {'name': 'répertoire', 'vtype': 'string', 'desc': 'where to start from: a directory name, also described at sufficient length to wrap'}]),
    cmd('st', 'exec', desc='status', extra=[grp('St', [opt('s', '', 'flag', desc='short status'), opt('t', '', 'flag', desc='terse')])])])))

with open('argparse.ndjson', 'w') as f:
    for i, t in enumerate(T, 1):
        t['id'] = i
        f.write(json.dumps(t, ensure_ascii=False) + '\n')
print(len(T), 'trees')
