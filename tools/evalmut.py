#!/usr/bin/env python3
"""evalmut.py <worktree> <N> <id> <prop> [<prop>...]
Confirms a seeded change (suite passes with it, demo fails with it and passes without it) in the scratch worktree,
then runs the registered quick checks of the given properties against /repo with the change applied, undoes it,
and files the change under /verif/seeded/<id>/ when confirmed."""
import json, os, shutil, subprocess, sys
ENV = dict(os.environ, GOFLAGS='-mod=mod', GOPROXY='off', GOSUMDB='off', GOTOOLCHAIN='local')

def sh(cmd, cwd, timeout=1200):
    r = subprocess.run(cmd, cwd=cwd, shell=True, env=ENV, capture_output=True, text=True, timeout=timeout)
    return r.returncode, r.stdout + r.stderr

def main():
    wt, n, mid = sys.argv[1], sys.argv[2], sys.argv[3]
    props = sys.argv[4:]
    out = os.path.join(wt, 'OUT')
    diff = os.path.join(out, 'mut%s.diff' % n)
    demo = os.path.join(out, 'demo_mut%s_test.go' % n)
    res = {'id': mid, 'properties': props}
    sh('git checkout -- . && rm -f demo_mut*_test.go', wt)
    hidden = os.path.join(wt, '_OUT')
    os.rename(out, hidden)   # keep `go test ./...` from seeing OUT
    try:
        diff_h = os.path.join(hidden, 'mut%s.diff' % n); demo_h = os.path.join(hidden, 'demo_mut%s_test.go' % n)
        shutil.copy(demo_h, os.path.join(wt, 'demo_mut%s_test.go' % n))
        rc0, o0 = sh('go test -vet=off -count=1 -run "Mut|Demo|mut" . 2>&1 | tail -5; exit ${PIPESTATUS[0]}', wt)
        rc0b, _ = sh('go test -vet=off -count=1 . ', wt)
        res['demo_passes_without_change'] = rc0b == 0
        rca, oa = sh('git apply %s' % diff_h, wt)
        res['applies'] = rca == 0
        rcb, ob = sh('go build ./...', wt)
        res['builds'] = rcb == 0
        rc1, o1 = sh('go test -vet=off -count=1 . ', wt)
        res['demo_fails_with_change'] = rc1 != 0
        os.remove(os.path.join(wt, 'demo_mut%s_test.go' % n))
        rc2, o2 = sh('go test -vet=off -count=1 ./...', wt)
        res['suite_passes_with_change'] = rc2 == 0
        sh('git checkout -- .', wt)
    finally:
        os.rename(hidden, out)
    res['confirmed'] = all(res.get(k) for k in ('demo_passes_without_change', 'applies', 'builds', 'demo_fails_with_change', 'suite_passes_with_change'))
    if res['confirmed'] and props:
        # the checks run against the scratch worktree with the change applied (VERIF_REPO), never against /repo
        os.rename(out, hidden)
        try:
            sh('git apply %s' % os.path.join(hidden, 'mut%s.diff' % n), wt)
            res['checks'] = {}
            outs = []
            for p in props:
                r = subprocess.run(['./check', p, '--tier', os.environ.get('TIER', 'quick')], cwd=os.environ.get('VERIF_ROOT', '/verif'), capture_output=True, text=True,
                                   env=dict(os.environ, VERIF_REPO=wt, VERIF_SEED=os.environ.get('VERIF_SEED', '1')), timeout=7200)
                res['checks'][p] = {0: 'MISSED', 1: 'CAUGHT'}.get(r.returncode, 'INFRA')
                outs.append('\n'.join([l for l in r.stdout.splitlines() if l.startswith(('VIOLATION', '  ', 'KNOWN', '['))][-8:]) + r.stderr[-500:])
            res['check_output'] = '\n'.join(outs)[-2500:]
        finally:
            sh('git checkout -- .', wt)
            os.rename(hidden, out)
    sd = os.path.join('/verif/seeded', mid)
    if res['confirmed']:
        os.makedirs(sd, exist_ok=True)
        shutil.copy(diff, os.path.join(sd, 'patch.diff'))
        shutil.copy(demo, os.path.join(sd, 'demo_test.go'))
        md = open(os.path.join(out, 'mut%s.md' % n)).read() if os.path.exists(os.path.join(out, 'mut%s.md' % n)) else ''
        meta = {'id': mid, 'breaks_property': props[0] if props else None, 'also_checked': props[1:], 'needs_to_manifest': md,
                'confirmed': {k: res[k] for k in ('demo_passes_without_change', 'applies', 'builds', 'demo_fails_with_change', 'suite_passes_with_change')},
                'what_was_run': 'in a scratch worktree: go test of the demonstration without and with the change, full suite with the change; then ./check <prop> --tier quick with the harness built against that worktree (VERIF_REPO); equivalent to git -C /repo apply <patch>; ./check <prop>; git -C /repo checkout -- .',
                'check_results': res.get('checks', {})}
        json.dump(meta, open(os.path.join(sd, 'meta.json'), 'w'), indent=1, ensure_ascii=False)
    print(json.dumps({k: v for k, v in res.items() if k != 'check_output'}))
    if 'check_output' in res:
        print(res['check_output'])

main()
