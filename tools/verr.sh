#!/bin/bash
# verr.sh <module> <rec> <decls> '<defects>': run validation and show the TLC error (if any)
M=$1; R=$(readlink -f $2); D=$(readlink -f $3); DEF=$4
T=$(mktemp -d /tmp/verr.XXXX); cp /verif/spec/*.tla $T/; ln -s $R $T/trace.ndjson; ln -s $D $T/decls.ndjson
printf 'SPECIFICATION Spec\nCONSTANT Defects = {%s}\nINVARIANT JudgeRecord\nCHECK_DEADLOCK FALSE\nPOSTCONDITION Post\n' "$DEF" > $T/$M.cfg
(cd $T && JAVA_TOOL_OPTIONS=-Xss128m timeout 3000 tlc -workers 1 -metadir $T/meta -config $M.cfg $M.tla 2>&1 | grep -v "^Parsing\|^Semantic\|^Linting\|^\s*at tlc2\|^State\|^l = \|^$" | grep -A14 "Error" | head -${5:-30} | cut -c1-240)
rm -rf $T
