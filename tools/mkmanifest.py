#!/usr/bin/env python3
"""Writes MANIFEST.json from the table below (one place to keep it consistent)."""
import json, os
ROOT = os.path.dirname(os.path.dirname(os.path.abspath(__file__)))

ARG = 'TLA+ specification spec/ArgParse.tla (argument loop, option cells, defaults phase, required check, command diagnosis, dispatch), TLC'
CLAIMS = {
    'C01': ('5.1', ARG, 'invariants ValuesDenote / UntouchedWithoutOccurrence of MC_ArgParse checked exhaustively by TLC on catalogue declarations; every TLC-enumerated vector replayed on the real ParseArgs and seeded random (declaration, vector) scenarios recorded from the real code are validated against the specification by TLC (values, callback log, untouched sentinels)'),
    'C02': ('5.2', ARG, 'pairs of argument vectors that differ in the spelling of one occurrence are run on the real code; TLC evaluates the admissibility predicate of the specification and requires equal outcomes for the pair and agreement of each member with the specification'),
    'C03': ('5.3', ARG, 'invariants ConservationStep / Conservation (history variable role) checked exhaustively over all vectors up to the bound under all 8 combinations of PassDoubleDash / IgnoreUnknown / PassAfterNonOption; all enumerated vectors replayed on the real code; random scenarios validated (remaining arguments, positional fields, arguments seen by Execute)'),
    'C04': ('5.4', ARG, 'invariants Deterministic / Terminates / Typed on the model (no dead end, bounded steps, typed error, output discipline); on the real code every scenario of the run is judged for panic, hang, ok-xor-error, documented error type and stdout/stderr discipline, including byte-level tokens'),
    'C06': ('5.6', ARG, 'invariant RequiredEnforced (declarative Missing/Unmet vs the operational check) exhaustively over vectors supplying every subset of required items of the catalogue; real error type and the set of names in the message compared by TLC on enumerated and random scenarios'),
    'C07': ('5.7', ARG, 'invariants ScopeAgrees / OccInScope / UnknownNeverSilent on the model with near-miss names derived from each declaration under the three policies and five handler behaviours; real error, handler call log and pass-through compared by TLC'),
    'C08': ('5.8', ARG, 'invariants ChainFromWords / ScopeAgrees (declarative innermost-wins lookup vs the ordered lookup) exhaustively over interleavings of command words and options on three-level trees, programmatic and tag-declared; real Active chain, values and command errors compared by TLC'),
    'C09': ('5.9', ARG, 'action property ExecOnlyAtDispatch and invariant ExecSafety on the model with single faults at every position; real Execute / CommandHandler call log compared by TLC on enumerated and random scenarios'),
    'C10': ('5.10', ARG, 'invariant Conservation (positional part: binding order, conversion, trailing slice) exhaustively over interleavings of plain tokens, options and the terminator; real positional fields compared by TLC'),
}
SES = 'TLA+ specifications spec/Ini.tla (INI reader automaton, section/name resolution, application, writer) and spec/ArgParse.tla, TLC'
CLAIMS.update({
    'C19': ('5.19', 'TLA+ specifications spec/Tag.tla (tag scanner automaton, declarative tag grammar, tag values -> attributes) and spec/Decl.tla (fields -> public model or typed setup error), TLC', 'invariants ScannerIsGrammar (the scanner automaton accepts exactly the declarative grammar) and BodyDecoded (a value is the Go string literal it is written as) of MC_Tag over all strings up to the bound; every string is replayed on the real library as the tag of a reflect.StructOf field; seeded random declarations (escapes, repeated keys, non-ASCII, marks in every spelling, collisions directly and through namespaces, too-long short names, defaults on boolean flags, malformed tags at random positions) are built with the real library and TLC compares the public model attribute by attribute (Groups / Options / Commands / Args, namespaced long names, env keys) or the type of the setup error'),
    'C16': ('5.16', 'TLA+ specifications spec/Help.tla (which items are shown along the active chain, what each row says) and spec/HelpProps.tla (ContentOK, ManOK), TLC', 'invariant Lay (ContentOK part) of MC_Help on the layout the specification produces for every catalogue declaration, selectable chain and width; on the real code the same predicate is evaluated by TLC on the real help text (WriteHelp and the text inside ErrHelp) and ManOK on the real man page, for the enumerated cases and for seeded random declarations decorated with marker descriptions, value names, masks with unique secret defaults, hidden items at every depth; equality of the whole real text with the specification layout is reported as a fidelity figure'),
    'C17': ('5.17', 'TLA+ specifications spec/Help.tla (alignment arithmetic, greedy wrapping over characters, hard break, minimum width) and spec/HelpProps.tla (LayoutOK), TLC', 'invariant Lay (no negative padding, LayoutOK) of MC_Help for all widths 0..120 (quick) / 0..300 (thorough) on catalogue declarations with non-ASCII names, long unbreakable words and embedded newlines; on the real code TLC evaluates LayoutOK (common description column, continuation lines indented to it, de-wrapped text equal to the original words, no line beyond the width when 10 columns remain) on the text produced with fd 0 attached to a pty of the chosen width, for the enumerated cases and seeded random declarations and widths 0..300'),
    'C18': ('5.18', 'TLA+ specifications spec/Completion.tla (the completion walk as the code does it, and the candidates derived from the parser context of spec/ArgParse.tla), TLC', 'invariants WalkAgreesWithParser (the separately implemented completion walk and the parser reach the same context and candidate list on every valid prefix), OfferedIsAccepted (every offered option / command name is accepted by the specification of the parser at that position) and Sorted of MC_Completion, exhaustively over typed words up to the bound and a set of partial words; every case and seeded random (declaration, valid prefix cut at a random point, partial word) scenarios are run through the real completion (GO_FLAGS_COMPLETION + CompletionHandler); TLC compares the offered items with the declarative candidate list and checks what the real parser answers to every offered name'),
    'C11': ('5.11', 'TLA+ specification spec/Conv.tla (digit-sequence integer grammar per base and bit size, booleans, key:value, literal tables for floats and durations, choices) inside spec/ArgParse.tla, TLC', 'invariants NativeAgree / RenderInverse of MC_Conv cross-check the digit-sequence arithmetic against native integers on the 8/16-bit types for all numerals up to the bound in bases 2, 8, 10, 16, 36; a boundary alphabet per (type, base) - limits and limits+-1 in the base, signs, leading zeros, blanks, underscores, prefixes, exponents, non-ASCII digits, float / duration / bool literals, choices and near misses - is sent through scalar, slice, map, pointer, slice-of-pointer, callback and positional on 57 conversion declarations and replayed on the real code; TLC compares acceptance, the stored value, the error type, the option named and the listed choices'),
    'C05': ('5.5', SES, 'invariant Precedence of MC_Sources (operational Set/setDefault/clearDefault/IniParser.parse protocol against the declarative ranking cli > ini > ini-as-defaults > env > default > preset, replace-never-extend) exhaustively over every subset of sources for every option of the sources declaration; every enumerated history replayed as real API calls; random histories (INI reads in both modes before/after ParseArgs, environment, defaults, presets) validated call by call against the specification'),
    'C12': ('5.12', SES, 'invariant TripInvariant of MC_Ini (Read(Write(values)) = values on the specification for a value alphabet of blanks, quotes, control, non-ASCII and invalid bytes, numeric limits, slices, maps, pointers, all eight IniOptions); every enumerated case and seeded random declarations with preset values are round-tripped on the real code (parser A: presets, parse, write; parser B: read, parse) and TLC compares the values'),
    'C13': ('5.13', SES, 'invariant EquivInvariant of MC_Ini (an entry in every naming form and section spelling stores what the flag stores, repeated entries like repeated flags, both reading modes) exhaustively on catalogue declarations; every case replayed on the real code as INI read and as command line; random INI texts addressing random declarations validated against the specification'),
    'C14': ('5.14', SES, 'invariant ReadInvariants of MC_Ini (typed located errors, noise and CRLF invariance, first syntactic fault always reported) over all files up to the bound over line shapes derived from each declaration; every file replayed on the real reader; random structured texts with noise, single faults, long lines and arbitrary bytes validated (no panic, error kind, line number, values)'),
    'C15': ('5.15', SES + '; Trace_Help / Trace_Completion / Trace_ArgParse for the repeated observations', 'TLC enumerates small INI files on the specification with sections applied in every order and selects those whose outcome depends on the order; the real code is run 200 (quick) / 2000 (thorough) times on each selected file and on seeded random sessions (reads, writes with multi-entry maps) and every repetition must give the identical observation'),
    'C20': ('5.20', 'TLA+ specification spec/Closest.tla (row-wise Levenshtein over characters, suggestion rule), TLC', 'invariants Metric (symmetry, identity, triangle inequality, agreement with a brute-force definition) and Diagnosis of MC_Closest exhaustively over short strings; every enumerated (word, names) case and seeded random command sets are run through the real ParseArgs and TLC checks the message against the set of allowed outcomes'),
})
NA = {
    'C05': 'not built yet in this round: value-source protocol model (Sources.tla) is next',
    'C11': 'not built yet in this round (Conv.tla exists; dedicated bounds pending)',
    'C12': 'not built yet in this round (Ini.tla pending)',
    'C13': 'not built yet in this round (Ini.tla pending)',
    'C14': 'not built yet in this round (Ini.tla pending)',
    'C15': 'not built yet in this round',
    'C16': 'not built yet in this round (Help.tla pending)',
    'C17': 'not built yet in this round (Wrap.tla pending)',
    'C18': 'not built yet in this round (Completion.tla pending)',
    'C19': 'not built yet in this round (Tag.tla pending)',
    'C20': 'not built yet in this round (Closest.tla pending)',
}

def main():
    extra = {}
    p = os.path.join(ROOT, 'tools', 'claims_extra.json')
    if os.path.exists(p):
        extra = json.load(open(p))
    checks = []
    claims = dict(CLAIMS)
    for k, v in extra.get('claims', {}).items():
        claims[k] = tuple(v)
    na = {k: v for k, v in NA.items() if k not in claims}
    na.update(extra.get('na', {}))
    for pid in sorted(claims):
        ref, engine, text = claims[pid]
        checks.append({
            'property_id': pid,
            'quick_cmd': './check %s --tier quick' % pid,
            'thorough_cmd': './check %s --tier thorough' % pid,
            'evidence_file': 'evidence/%s.json' % pid,
            'replay_cmd_template': './check %s --replay {path}' % pid,
            'engine': 'tlc+conformance',
            'level_claimed': {'category': 'model_checking', 'text': text, 'design_ref': 'DESIGN.md section ' + ref},
            'level_note': 'trusted base: TLC 1.8 and the CommunityModules Json reader; the Go harness that builds struct types with reflect.StructOf and records observations through the public API; bounds of the exhaustive model are written to the evidence file; outside the bounds only the seeded random scenarios speak',
            'technique': 'explicit TLA+ specification model-checked with TLC; conformance by replaying TLC-enumerated scenarios into the real code and validating recorded real executions against the specification (trace validation)',
        })
    m = {
        'version': 1,
        'setup_cmd': 'cd /verif && ./setup.sh',
        'hooks': {'guard': 'verif', 'enable': 'go build -tags verif (the harness is built with the tag; no hook exists in the library: every observable is reachable through the public API)',
                  'baseline_off_cmd': 'cd /repo && GOFLAGS=-mod=mod GOPROXY=off go test -vet=off -count=1 ./...', 'source_commits': [], 'add_only': True},
        'engines': [{'name': 'tlc+conformance', 'path': 'check', 'serves_properties': sorted(claims), 'kind_free_text': 'TLC model checking of spec/*.tla + Go conformance harness (harness/) + TLC trace validation'}],
        'checks': checks,
        'not_applicable': [{'property_id': k, 'reason': v} for k, v in sorted(na.items())],
        'notes': 'See DESIGN.md. known_findings.json lists genuine defects (fixed or known).',
    }
    json.dump(m, open(os.path.join(ROOT, 'MANIFEST.json'), 'w'), indent=1)

if __name__ == '__main__':
    main()
