#!/usr/bin/env python3
"""Sensitivity / non-vacuity self-test (not a registered check).

1. For every defect switch of the specification that has a model-level property, the exhaustive model is run with
   the switch ON and TLC must find a violation of the property's invariant (the invariant is not vacuous and is
   sensitive to precisely that fault); with the switch OFF the same configuration must pass.
2. Binding demonstration: one field of one recorded real observation is corrupted and the trace validation must
   reject exactly that record.
3. Coverage: MC_ArgParse is run with -coverage and every named action must have been taken.
Exit 0 when everything behaves as expected."""
import json, os, re, shutil, subprocess, sys, tempfile

ROOT = os.path.dirname(os.path.dirname(os.path.abspath(__file__)))
sys.path.insert(0, os.path.join(ROOT, 'lib'))
from vlib import Ctx, Infra, NCPU

CASES = [
    # (module, wrapper text or None, cfg body without Defects line, switch, invariant expected to fail)
    ('MC_Spell', '---- MODULE MCrun ----\nEXTENDS MC_Spell\nc_POptSets == {<<>>}\n====\n',
     'DeclIds = {9}\n  CtxLen = 0\n  POptSets <- c_POptSets\n  Emit = FALSE\nINVARIANTS PairAgree', 'ShortEqByteOffset', 'PairAgree'),
    ('MC_Closest', None, 'Alpha = {97, 98, 233}\n  MaxL = 3\n  Emit = FALSE\nINVARIANTS Metric Diagnosis', 'LevFirstRow', 'Diagnosis'),
    ('MC_Sources', None, 'DeclIds = {12}\n  Emit = FALSE\nINVARIANTS Precedence', 'IniAsDefaultsFirstOnly', 'Precedence'),
    ('MC_Ini', None, 'Mode = "trip"\n  DeclIds = {11}\n  MaxLines = 2\n  Emit = FALSE\nINVARIANTS TripInvariant', 'IniWriterQuoting', 'TripInvariant'),
    ('MC_Ini', None, 'Mode = "trip"\n  DeclIds = {11}\n  MaxLines = 2\n  Emit = FALSE\nINVARIANTS TripInvariant', 'IniWriterPtrString', 'TripInvariant'),
    ('MC_Ini', None, 'Mode = "trip"\n  DeclIds = {11}\n  MaxLines = 2\n  Emit = FALSE\nINVARIANTS TripInvariant', 'IniWriterNilPtr', 'TripInvariant'),
    ('MC_Ini', None, 'Mode = "trip"\n  DeclIds = {11}\n  MaxLines = 2\n  Emit = FALSE\nINVARIANTS TripInvariant', 'IniMapEmptyValuePanics', 'TripInvariant'),
    ('MC_Completion', '---- MODULE MCrun ----\nEXTENDS MC_Completion\nc_POptSets == {<<>>}\n====\n',
     'DeclIds = {14}\n  MaxWords = 2\n  POptSets <- c_POptSets\n  Emit = FALSE\nINVARIANTS WalkAgreesWithParser', 'CompletionEntersCommandAfterArg', 'WalkAgreesWithParser'),
    ('MC_Help', None, 'DeclIds = {15}\n  MaxWidth = 60\n  Emit = FALSE\nINVARIANTS Lay', 'HelpBytes', 'Lay'),
]


def run_mc(ctx, d, module, wrapper, body, defects):
    spec = 'MSpec' if module == 'MC_Help' else 'Spec'
    mod = module
    if wrapper:
        open(os.path.join(d, 'MCrun.tla'), 'w').write(wrapper)
        mod = 'MCrun'
    cfg = 'SPECIFICATION %s\nCONSTANTS\n  Defects = {%s}\n  %s\nCHECK_DEADLOCK FALSE\n' % (spec, ', '.join('"%s"' % x for x in defects), body)
    rc, out = ctx.tlc(d, mod, cfg, workers=NCPU, timeout=1200)
    return out


def main():
    ctx = Ctx('SELFTEST', 'quick', 1)
    ok = True
    try:
        ctx.build_harness()
        d = ctx.specdir('st')
        ctx.vh('decls', '-trees', os.path.join(ROOT, 'catalog', 'argparse.ndjson'), '-decls', os.path.join(d, 'catalog_decls.ndjson'))
        for module, wrapper, body, switch, inv in CASES:
            off = run_mc(ctx, d, module, wrapper, body, [])
            on = run_mc(ctx, d, module, wrapper, body, [switch])
            passes_off = ctx.tlc_ok(off)
            fails_on = ('Invariant %s is violated' % inv) in on
            print('%-14s %-34s off: %-5s on: %s' % (module, switch, 'pass' if passes_off else 'FAIL', 'violates ' + inv if fails_on else 'NOT DETECTED'))
            ok = ok and passes_off and fails_on
        # 2. binding demonstration
        ctx.vh('gen', '-seed', 7, '-ntrees', 20, '-per', 20, '-trees', 't.ndjson', '-decls', 'd.ndjson', '-scen', 's.ndjson')
        ctx.vh('run', '-trees', 't.ndjson', '-scen', 's.ndjson', '-out', 'r.ndjson', '-workers', 4)
        lines = open(os.path.join(ctx.work, 'r.ndjson')).read().splitlines()
        victim = None
        for i, l in enumerate(lines):
            r = json.loads(l)
            if r['obs']['ok'] and r['obs']['retargs'] and not r.get('hasPrelude') and not r.get('completion'):
                r['obs']['retargs'] = r['obs']['retargs'][1:]          # one remaining argument silently dropped
                lines[i] = json.dumps(r)
                victim = i + 1
                break
        open(os.path.join(ctx.work, 'r2.ndjson'), 'w').write('\n'.join(lines) + '\n')
        bad, stats, n = ctx.validate('bind', 'Trace_ArgParse', os.path.join(ctx.work, 'r2.ndjson'), os.path.join(ctx.work, 'd.ndjson'),
                                     ['C03', 'C10', 'C01'], shards=1)
        print('binding: corrupted record %s -> rejected for C03: %s' % (victim, bad['C03']))
        ok = ok and victim is not None and bad['C03'] == [victim]
        # 3. coverage of the named actions.  (TLC's own -coverage instrumentation does not get past start-up on this specification;
        #    the loop is deterministic, so the action taken in a state is the one enabled there: an invariant tallies it.)
        open(os.path.join(d, 'MCrun.tla'), 'w').write(
            '---- MODULE MCrun ----\nEXTENDS MC_ArgParse\n'
            'c_POptSets == {<<"HelpFlag", "PassDoubleDash", "PrintErrors">>, <<"IgnoreUnknown", "PassAfterNonOption">>}\n'
            'TallyInit == TLCSet(5, [i \\in 1..Len(ActionNames) |-> 0])\n'
            'Tally == IF st.phase = "done" THEN TRUE\n'
            '         ELSE LET i == CHOOSE i \\in EnabledSet(st) : TRUE IN TLCSet(5, [TLCGet(5) EXCEPT ![i] = @ + 1])\n'
            'TallyPost == PrintT(<<"VERIF-TALLY", [i \\in 1..Len(ActionNames) |-> <<ActionNames[i], TLCGet(5)[i]>>]>>)\n'
            'ASSUME TallyInit\n====\n')
        cfg = ('SPECIFICATION Spec\nCONSTANTS\n  Defects = {}\n  DeclIds = {3, 4, 7}\n  MaxLen = 2\n  POptSets <- c_POptSets\n  Handlers = {"none"}\n'
               '  Policy = {"opts", "cmds", "clusters", "odd", "unknown"}\n  PreMode = "none"\n  Emit = FALSE\nINVARIANTS Deterministic Conservation Tally\nPOSTCONDITION TallyPost\nCHECK_DEADLOCK FALSE\n')
        rc, out = ctx.tlc(d, 'MCrun', cfg, workers=1, timeout=1200)
        names = ['Start', 'Terminator', 'PassAfterNonOption', 'NonOptPositional', 'NonOptCommand', 'NonOptUnknownCommand', 'NonOptRest', 'LongOpt', 'ShortBegin',
                 'ShortRune', 'LoopEnd', 'ApplyDefaults', 'CheckRequired', 'DiagnoseCommand', 'Dispatch', 'SkipToReturn', 'Return']
        tally = dict((a, int(n)) for a, n in re.findall(r'<<"(\w+)", (\d+)>>', out[out.find('VERIF-TALLY'):] if 'VERIF-TALLY' in out else ''))
        print('coverage: states per action:', tally)
        never = [n for n in names if tally.get(n, 0) == 0]
        print('coverage: actions never taken:', never)
        ok = ok and bool(tally) and not never
    except Infra as e:
        print('INFRA', e)
        ok = False
    ctx.cleanup()
    print('SELFTEST', 'ok' if ok else 'FAILED')
    sys.exit(0 if ok else 1)


if __name__ == '__main__':
    main()
