#!/bin/bash
# quick.sh <workdir> <seed> <ntrees> <per> [defects]: generate, run, validate; prints bad sets
set -e
export GOFLAGS=-mod=mod GOPROXY=off GOSUMDB=off GOTOOLCHAIN=local
W=$1; SEED=$2; NT=$3; PER=$4; DEF=$5
(cd /verif/harness && go build -o /verif/bin/vh .)
rm -rf $W; mkdir -p $W; cd $W
/verif/bin/vh gen -seed $SEED -ntrees $NT -per $PER
/verif/bin/vh run -trees trees.ndjson -scen scen.ndjson -out rec.ndjson -workers 8
mkdir spec; cp /verif/spec/* spec/; cd spec; ln -s ../rec.ndjson trace.ndjson; ln -s ../decls.ndjson decls.ndjson
printf 'SPECIFICATION Spec\nCONSTANT Defects = {%s}\nINVARIANT JudgeRecord\nCHECK_DEADLOCK FALSE\nPOSTCONDITION Post\n' "$DEF" > Trace_ArgParse.cfg
JAVA_TOOL_OPTIONS="-Xss64m" timeout 1200 tlc -workers 1 -metadir $W/meta -config Trace_ArgParse.cfg Trace_ArgParse.tla > out.txt 2>&1 || true
grep -A1 "CONSUMED" out.txt || tail -30 out.txt
python3 - <<'PY'
import re
s=open('out.txt').read()
for m in re.finditer(r'<<\s*"VERIF-BAD",\s*"(\w+)",\s*\{([^}]*)\}\s*>>',s):
    ids=[int(x) for x in m.group(2).replace('\n',' ').split(',') if x.strip()]
    print(m.group(1),len(ids),ids[:25])
PY
