#!/usr/bin/env python3
"""Writes spec/ErrText.tla: the exact message texts of the errors ParseArgs returns (literal pieces as code points)."""
import os
def q(s): return '<<' + ', '.join(str(ord(c)) for c in s) + '>>'
C = {
 'tUnknownFlag': "unknown flag `",
 'tApos': "'",
 'tBq': "`",
 'tBoolFlag': "bool flag `",
 'tCannotArg': "' cannot have an argument",
 'tExpectedArg': "expected argument for flag `",
 'tGotOption': "', but got option `",
 'tGotDD': "', but got double dash `--'",
 'tVVRefused': "vv: refused `",
 'tInvalidValue': "Invalid value `",
 'tForOption': "' for option `",
 'tAllowed': "'. Allowed values are: ",
 'tOr': " or ",
 'tAnd': " and ",
 'tComma': ", ",
 'tReqFlag': "the required flag ",
 'tReqFlags': "the required flags ",
 'tNotSpecified1': " was not specified",
 'tNotSpecifiedN': " were not specified",
 'tReqArg': "the required argument ",
 'tReqArgs': "the required arguments ",
 'tNotProvided1': " was not provided",
 'tNotProvidedN': " were not provided",
 'tAtLeast': " (at least ",
 'tAtMost': " (at most ",
 'tZeroArgs': " (zero arguments)`",
 'tArgument': " argument)`",
 'tArgsGotOnly': " arguments, but got only ",
 'tArgsGot': " arguments, but got ",
 'tCloseParBq': ")`",
 'tInvalidArg': "invalid argument for flag `",
 'tExpected': "' (expected ",
 'tCloseColon': "): ",
 'tAposColon': "': ",
 'tUnknownCmd': "Unknown command `",
 'tDidYouMean': "', did you mean `",
 'tAposQ': "'?",
 'tYouShouldUse': "'. You should use the ",
 'tCommand': " command",
 'tPleaseOneOfU': "'. Please specify one command of: ",
 'tPleaseThe': "Please specify the ",
 'tPleaseOneOf': "Please specify one command of: ",
}
TYPES = {'string': 'string', 'bool': 'bool', 'int': 'int', 'int8': 'int8', 'int16': 'int16', 'int32': 'int32', 'int64': 'int64', 'uint': 'uint', 'uint8': 'uint8',
         'uint16': 'uint16', 'uint32': 'uint32', 'uint64': 'uint64', 'float32': 'float32', 'float64': 'float64', 'duration': 'time.Duration',
         'um': 'main.UM', 'us': 'main.US', 'tb': 'main.TB', 'vv': 'main.VV', 'cc': 'main.CC', 'filename': 'flags.Filename'}
out = []
out.append('''------------------------------- MODULE ErrText -------------------------------
(***************************************************************************)
(* The message text of every *flags.Error that ParseArgs builds itself     *)
(* (parser.go:385-480 checkRequired, 484-524 estimateCommand, 526-593      *)
(* parseOption / marshalError, 603-650 unknown flags; option.go:255-276    *)
(* choices), as a function of the final state of the specification.        *)
(* MsgOf gives [known, exact, text]: exact = the whole message, otherwise   *)
(* text is the prefix up to the text of a foreign (strconv, Unmarshaler)   *)
(* error, which the specification does not describe.                       *)
(* Generated literal pieces: tools/mkerrtext.py.  Fidelity only: the       *)
(* verdicts of C04 / C06 / C07 / C11 / C20 are taken from the structured    *)
(* projection of the message (type, option, names, word), never from the   *)
(* wording.                                                                *)
(***************************************************************************)
EXTENDS ArgParse
CL == INSTANCE Closest
''')
for k, v in C.items():
    out.append('%s == %s      \\* %s' % (k, q(v), v))
out.append('')
out.append('TypeName(vt) == CASE ' + '\n                 [] '.join('vt = "%s" -> %s' % (k, q(v)) for k, v in TYPES.items()) + '\n                 [] OTHER -> E')
out.append(r'''
\* reflect.Type.String() of the option's field; E when the message carries no "(expected ...)" clause (callbacks) or the type is not tabulated
FieldTypeName(od) ==
  LET el == TypeName(IF od.validator THEN "vv" ELSE od.vtype) IN
  CASE od.kind = "flag" -> TypeName("bool")
    [] od.kind = "counter" -> <<91, 93>> \o TypeName("bool")
    [] od.kind = "ptrflag" -> <<42>> \o TypeName("bool")
    [] od.kind = "scalar" -> el
    [] od.kind = "slice" -> <<91, 93>> \o el
    [] od.kind = "sliceptr" -> <<91, 93, 42>> \o el
    [] od.kind = "ptr" -> <<42>> \o el
    [] od.kind = "map" -> <<109, 97, 112, 91>> \o TypeName(od.ktype) \o <<93>> \o el
    [] OTHER -> E

RECURSIVE NatText(_)
NatText(n) == IF n < 10 THEN <<48 + n>> ELSE NatText(n \div 10) \o <<48 + (n % 10)>>

\* "a, b and c" / "a, b or c"
ListWith(items, last) == IF Len(items) = 1 THEN items[1]
                         ELSE Join(SubSeq(items, 1, Len(items) - 1), tComma) \o last \o items[Len(items)]

Known(t) == [known |-> TRUE, exact |-> TRUE, text |-> t]
KnownPrefix(t) == [known |-> TRUE, exact |-> FALSE, text |-> t]
Unknown == [known |-> FALSE, exact |-> FALSE, text |-> E]

\* ErrRequired (checkRequired): missing options as `-s, --long', sorted as texts; otherwise the unmet positionals in declaration order
RequiredText(f) ==
  LET miss == MissingOpts(f)
      unmet == UnmetArgs(f) IN
  IF miss # <<>> THEN
       LET names == SortStrs([i \in 1..Len(miss) |-> tBq \o OptString(f.d, f.opts[miss[i]]) \o tApos]) IN
       IF Len(names) = 1 THEN tReqFlag \o names[1] \o tNotSpecified1
       ELSE tReqFlags \o ListWith(names, tAnd) \o tNotSpecifiedN
  ELSE LET item(h) ==
             LET ad == f.d.cmds[h.c].args[h.i]
                 n == Len(f.pos[h.c][h.i]) IN
             IF ~ad.slice THEN tBq \o ad.name \o tBq
             ELSE IF n < ad.req THEN
                  tBq \o ad.name \o tAtLeast \o NatText(ad.req) \o (IF ad.req > 1 THEN tArgsGotOnly \o NatText(n) \o tCloseParBq ELSE tArgument)
             ELSE IF ad.reqMax = 0 THEN tBq \o ad.name \o tZeroArgs
             ELSE tBq \o ad.name \o tAtMost \o NatText(ad.reqMax) \o (IF ad.reqMax > 1 THEN tArgsGot \o NatText(n) \o tCloseParBq ELSE tArgument)
           names == [i \in 1..Len(unmet) |-> item(unmet[i])] IN
       IF Len(names) = 1 THEN tReqArg \o names[1] \o tNotProvided1
       ELSE tReqArgs \o ListWith(names, tAnd) \o tNotProvidedN

\* the visible sub-commands of the innermost command, as the diagnosis sees them
VisibleSubNames(f) == LET ks == SelectSeq([k \in 1..Len(f.d.cmds) |-> k], LAMBDA k : f.d.cmds[k].parent = f.cmd /\ ~f.d.cmds[k].hidden) IN
                      [i \in 1..Len(ks) |-> f.d.cmds[ks[i]].name]

\* every text the command diagnosis may produce (any nearest command may be the one suggested)
CommandTexts(f) ==
  LET names == VisibleSubNames(f)
      hasWord == f.err.t = "ErrUnknownCommand"
      enum(ns) == IF Len(ns) = 1 THEN ns[1] ELSE Join(SubSeq(ns, 1, Len(ns) - 1), tComma) \o tOr \o ns[Len(ns)] IN
  {IF ~hasWord THEN (IF a.kind = "none" THEN E ELSE IF Len(a.names) = 1 THEN tPleaseThe \o a.names[1] \o tCommand ELSE tPleaseOneOf \o enum(a.names))
   ELSE IF a.kind = "none" THEN tUnknownCmd \o f.err.word \o tApos
   ELSE IF a.kind = "suggest" THEN tUnknownCmd \o f.err.word \o tDidYouMean \o a.names[1] \o tAposQ
   ELSE IF Len(a.names) = 1 THEN tUnknownCmd \o f.err.word \o tYouShouldUse \o a.names[1] \o tCommand
   ELSE tUnknownCmd \o f.err.word \o tPleaseOneOfU \o enum(a.names)
   : a \in CL!Allowed(hasWord, f.err.word, names)}

\* one text, or a prefix, for the errors whose wording is a function of (type, option, aux)
MsgOf(f) ==
  LET e == f.err IN
  CASE e.t = "ErrUnknownFlag" -> Known(tUnknownFlag \o e.word \o tApos)
    [] e.t = "ErrNoArgumentForBool" -> Known(tBoolFlag \o e.opt \o tCannotArg)
    [] e.t = "ErrExpectedArgument" ->
         (CASE e.aux.k = "plain" -> Known(tExpectedArg \o e.opt \o tApos)
            \* (parser.go:543 hands the finished text to a format call: a percent sign in the echoed word or in the option's
            \*  name comes out mangled - observed, outside every listed property; such texts are not described)
            [] e.aux.k = "gotopt" -> IF InSeq(e.aux.a, 37) \/ InSeq(e.opt, 37) THEN Unknown ELSE Known(tExpectedArg \o e.opt \o tGotOption \o e.aux.a \o tApos)
            [] e.aux.k = "dd" -> Known(tExpectedArg \o e.opt \o tGotDD)
            \* the validator's own text goes through a format call: only percent-free texts come out unchanged
            [] e.aux.k = "validator" -> IF InSeq(e.aux.a, 37) THEN Unknown ELSE Known(tVVRefused \o e.aux.a \o tApos)
            [] OTHER -> Unknown)
    [] e.t = "ErrInvalidChoice" ->
         Known(tInvalidValue \o e.aux.a \o tForOption \o e.opt \o tAllowed
               \o (IF Len(e.names) = 1 THEN e.names[1] ELSE Join(SubSeq(e.names, 1, Len(e.names) - 1), tComma) \o tOr \o e.names[Len(e.names)]))
    [] e.t = "ErrMarshal" ->
         LET od == IF e.aux.o = 0 THEN [kind |-> "func1"] ELSE f.opts[e.aux.o]
             tn == IF e.aux.o = 0 THEN E ELSE FieldTypeName(od) IN
         IF e.aux.o = 0 THEN Unknown
         ELSE IF od.kind \in {"func0", "func1"} THEN KnownPrefix(tInvalidArg \o e.opt \o tAposColon)
         ELSE IF tn = E THEN KnownPrefix(tInvalidArg \o e.opt \o tApos)
         ELSE KnownPrefix(tInvalidArg \o e.opt \o tExpected \o tn \o tCloseColon)
    [] e.t = "ErrRequired" -> Known(RequiredText(f))
    [] OTHER -> Unknown

\* does the real message agree with what the specification says about its wording
MsgAgrees(f, msg) ==
  IF f.err.t \in {"ErrUnknownCommand", "ErrCommandRequired"} THEN msg \in CommandTexts(f)
  ELSE LET m == MsgOf(f) IN
       IF ~m.known THEN TRUE
       ELSE IF m.exact THEN msg = m.text
       ELSE HasPrefix(msg, m.text)
=============================================================================''')
open(os.path.join(os.path.dirname(os.path.abspath(__file__)), '..', 'spec', 'ErrText.tla'), 'w').write('\n'.join(out) + '\n')
print('written')
