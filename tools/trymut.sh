#!/bin/bash
# trymut.sh <patch.diff> <prop> [<prop>...] : apply a seeded change to /repo, run the quick checks, undo it.
# prints one line per property: CAUGHT (exit 1), MISSED (exit 0), INFRA (exit 2)
P=$1; shift
cd /repo || exit 2
if [ -n "$(git status --porcelain --untracked-files=no)" ]; then echo "repo not clean"; exit 2; fi
git apply "$P" || { echo "patch does not apply"; exit 2; }
trap 'git -C /repo checkout -- . ' EXIT
export GOFLAGS=-mod=mod GOPROXY=off GOSUMDB=off GOTOOLCHAIN=local
if ! go build ./... ; then echo "BUILD-FAIL"; exit 2; fi
if ! go test -vet=off -count=1 . > /tmp/trymut.test.log 2>&1; then echo "SUITE-FAILS (mutant is caught by the existing tests)"; fi
cd /verif
for p in "$@"; do
  out=$(VERIF_SEED=${VERIF_SEED:-1} ./check $p --tier ${TIER:-quick} 2>&1); rc=$?
  case $rc in 0) r=MISSED;; 1) r=CAUGHT;; *) r=INFRA;; esac
  echo "$p $r $(echo "$out" | grep -c '^VIOLATION') violations; $(echo "$out" | grep -m1 -A1 '^VIOLATION' | tail -1 | cut -c1-200)"
  [ $rc -ge 2 ] && echo "$out" | tail -5
done
