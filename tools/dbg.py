#!/usr/bin/env python3
"""dbg.py <workdir with rec.ndjson/decls.ndjson/trees.ndjson> idx... : show a record and what the spec prescribes.
env DEFECTS='"A","B"' to switch defects on."""
import json, os, subprocess, sys, tempfile, shutil, re
sys.path.insert(0, os.path.dirname(__file__))
from show import conv, s

def main():
    wd = sys.argv[1]
    recs = open(os.path.join(wd, 'rec.ndjson')).read().splitlines()
    tmp = tempfile.mkdtemp(prefix='dbg')
    for f in os.listdir('/verif/spec'):
        shutil.copy(os.path.join('/verif/spec', f), tmp)
    shutil.copy(os.path.join(wd, 'decls.ndjson'), os.path.join(tmp, 'decls.ndjson'))
    idxs = [int(a) for a in sys.argv[2:]]
    with open(os.path.join(tmp, 'trace.ndjson'), 'w') as f:
        for i in idxs:
            f.write(recs[i - 1] + '\n')
    defects = os.environ.get('DEFECTS', '')
    open(os.path.join(tmp, 'Debug_ArgParse.cfg'), 'w').write('SPECIFICATION DSpec\nCONSTANT Defects = {%s}\nCHECK_DEADLOCK FALSE\n' % defects)
    out = subprocess.run(['tlc', '-workers', '1', '-metadir', os.path.join(tmp, 'meta'), '-config', 'Debug_ArgParse.cfg', 'Debug_ArgParse.tla'],
                         cwd=tmp, capture_output=True, text=True).stdout
    specs = {}
    for m in re.finditer(r'<<"SPEC", (\d+), "(.*?)">>\n', out, re.S):
        specs[int(m.group(1))] = json.loads(m.group(2).encode().decode('unicode_escape'))
    judges = {int(m.group(1)): m.group(2) for m in re.finditer(r'<<\s*"JUDGE",\s*(\d+),\s*(\[.*?\])\s*>>', out, re.S)}
    trees = [json.loads(l) for l in open(os.path.join(wd, 'trees.ndjson'))]
    for k, i in enumerate(idxs, 1):
        r = json.loads(recs[i - 1])
        print('=== record', i, 'decl', r['decl'], 'popts', r['popts'], 'handler', r['handler'], 'cmdHandler', r['cmdHandler'], 'execErr', r['execErr'])
        print('env  ', conv(r['env']))
        print('argv ', [s(t) for t in r['argv']])
        if r.get('alt'):
            print('alt  ', [s(t) for t in r['alt']], conv(r.get('altInfo')))
        o = r['obs']
        print('OBS  ', json.dumps(conv({k2: v for k2, v in o.items() if k2 not in ('errMsg', 'panicMsg', 'setupErr')}), ensure_ascii=False))
        print('msg  ', s(o.get('errMsg', [])), s(o.get('panicMsg', [])))
        if k in specs:
            print('SPEC ', json.dumps(conv(specs[k]), ensure_ascii=False))
        else:
            print('SPEC  (none)'); print(out[-3000:])
        print('JUDGE', re.sub(r'\s+', ' ', judges.get(k, '?')))
        if os.environ.get('TREE'):
            print('tree ', json.dumps(trees[r['decl'] - 1], ensure_ascii=False))
    shutil.rmtree(tmp)

if __name__ == '__main__':
    main()
