#!/bin/bash
# vtrace.sh <module> <rec.ndjson> <decls.ndjson> '<defects>' : validate a record file with TLC (single process), print bad sets
M=$1; R=$(readlink -f $2); D=$(readlink -f $3); DEF=$4
T=$(mktemp -d /tmp/vtrace.XXXX); cp /verif/spec/*.tla $T/; ln -s $R $T/trace.ndjson; ln -s $D $T/decls.ndjson
printf 'SPECIFICATION Spec\nCONSTANT Defects = {%s}\nINVARIANT JudgeRecord\nCHECK_DEADLOCK FALSE\nPOSTCONDITION Post\n' "$DEF" > $T/$M.cfg
(cd $T && JAVA_TOOL_OPTIONS=-Xss128m timeout 3000 tlc -workers 1 -metadir $T/meta -config $M.cfg $M.tla > out.txt 2>&1)
python3 - $T/out.txt <<'PY'
import re,sys
s=open(sys.argv[1]).read()
m=re.search(r'<<\s*"VERIF-CONSUMED".*?>>',s,re.S); print(m.group(0) if m else s[-2000:])
m=re.search(r'<<\s*"VERIF-STAT",\s*(\[.*?\])\s*>>',s,re.S); print(re.sub(r'\s+',' ',m.group(1)) if m else '')
for m in re.finditer(r'<<\s*"VERIF-BAD",\s*"(\w+)",\s*\{([^}]*)\}\s*>>',s):
    ids=[int(x) for x in m.group(2).replace('\n',' ').split(',') if x.strip()]
    print(m.group(1),len(ids),ids[:20])
PY
rm -rf $T
