#!/usr/bin/env python3
"""dbgh.py <rec.ndjson> <decls.ndjson> idx... : help records: real lines vs spec lines"""
import json, os, subprocess, sys, tempfile, shutil, re, difflib
sys.path.insert(0, os.path.dirname(__file__))
from show import conv, s
recs = open(sys.argv[1]).read().splitlines()
tmp = tempfile.mkdtemp(prefix='dbgh')
for f in os.listdir('/verif/spec'):
    shutil.copy(os.path.join('/verif/spec', f), tmp)
shutil.copy(sys.argv[2], os.path.join(tmp, 'decls.ndjson'))
idxs = [int(a) for a in sys.argv[3:]]
open(os.path.join(tmp, 'trace.ndjson'), 'w').write(''.join(recs[i - 1] + '\n' for i in idxs))
open(os.path.join(tmp, 'Debug_Help.cfg'), 'w').write('SPECIFICATION DSpec\nCONSTANT Defects = {%s}\nCHECK_DEADLOCK FALSE\n' % os.environ.get('DEFECTS', ''))
out = subprocess.run(['tlc', '-workers', '1', '-metadir', os.path.join(tmp, 'meta'), '-config', 'Debug_Help.cfg', 'Debug_Help.tla'], cwd=tmp, capture_output=True, text=True, env=dict(os.environ, JAVA_TOOL_OPTIONS='-Xss128m')).stdout
specs = {int(m.group(1)): json.loads(m.group(2).encode().decode('unicode_escape')) for m in re.finditer(r'<<"SPEC", (\d+), "(.*?)">>\n', out, re.S)}
for k, i in enumerate(idxs, 1):
    r = json.loads(recs[i - 1])
    print('=== rec', i, 'decl', r['decl'], r['popts'], 'words', [s(w) for w in r['words']], 'width', r['width'], r['kind'], 'panic', r['obs']['panic'], s(r['obs'].get('panicMsg', [])))
    real = [s(x) for x in r['obs']['lines']]
    if k in specs:
        sp = specs[k]
        spec = [s(x) if x != [-1] else '<PANIC>' for x in sp['lines']]
        print('  chain', sp['chain'], 'err', sp['err'], 'ds', sp['ds'], 'judge', {kk: vv for kk, vv in sp['judge'].items() if kk.startswith('C') or kk == 'DRIFT'})
        for d in difflib.unified_diff(spec, real, 'spec', 'real', lineterm='', n=1):
            print('   ', d)
    else:
        print(out[-2000:])
shutil.rmtree(tmp)
