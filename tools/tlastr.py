#!/usr/bin/env python3
"""tlastr.py <in> <out>: expands every @"text"@ in a TLA+ template into the tuple of its code points (\\n = newline, \\\\ = backslash)."""
import re, sys
def q(m):
    t = m.group(1).encode().decode('unicode_escape')
    return '<<' + ', '.join(str(ord(c)) for c in t) + '>>'
s = open(sys.argv[1], encoding='utf-8').read()
open(sys.argv[2], 'w', encoding='utf-8').write(re.sub(r'@"((?:[^"\\]|\\.)*)"@', q, s))
