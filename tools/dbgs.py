#!/usr/bin/env python3
"""dbgs.py <rec.ndjson> <decls.ndjson> idx... : show session records and what the spec prescribes per call.
env DEFECTS='"A","B"'"""
import json, os, subprocess, sys, tempfile, shutil, re
sys.path.insert(0, os.path.dirname(__file__))
from show import conv, s

def main():
    recs = open(sys.argv[1]).read().splitlines()
    tmp = tempfile.mkdtemp(prefix='dbgs')
    for f in os.listdir('/verif/spec'):
        shutil.copy(os.path.join('/verif/spec', f), tmp)
    shutil.copy(sys.argv[2], os.path.join(tmp, 'decls.ndjson'))
    idxs = [int(a) for a in sys.argv[3:]]
    with open(os.path.join(tmp, 'trace.ndjson'), 'w') as f:
        for i in idxs:
            f.write(recs[i - 1] + '\n')
    defects = os.environ.get('DEFECTS', '')
    open(os.path.join(tmp, 'Debug_Session.cfg'), 'w').write('SPECIFICATION DSpec\nCONSTANT Defects = {%s}\nCHECK_DEADLOCK FALSE\n' % defects)
    env = dict(os.environ, JAVA_TOOL_OPTIONS='-Xss128m')
    out = subprocess.run(['tlc', '-workers', '1', '-metadir', os.path.join(tmp, 'meta'), '-config', 'Debug_Session.cfg', 'Debug_Session.tla'],
                         cwd=tmp, capture_output=True, text=True, env=env).stdout
    specs = {}
    for m in re.finditer(r'<<"SPEC", (\d+), "(.*?)">>\n', out, re.S):
        specs[int(m.group(1))] = json.loads(m.group(2).encode().decode('unicode_escape'))
    judges = {int(m.group(1)): m.group(2) for m in re.finditer(r'<<\s*"JUDGE",\s*(\d+),\s*(\[.*?\])\s*>>', out, re.S)}
    for k, i in enumerate(idxs, 1):
        r = json.loads(recs[i - 1])
        print('=== session', i, 'decl', r['decl'], 'popts', r['popts'], 'tags', r['tags'], 'env', conv(r['env']), 'presets', conv(r.get('presets', [])))
        for ci, c in enumerate(r['calls']):
            o = r['obs'][ci] if ci < len(r['obs']) else {}
            desc = c['op']
            if c['op'] == 'ini':
                desc += ' asDef=%s fromWrite=%s text=%r' % (c.get('asDefaults'), c.get('fromWrite'), s(c.get('text', []))[:500])
            if c['op'] == 'args':
                desc += ' ' + repr([s(t) for t in c.get('argv', [])])
            if c['op'] == 'write':
                desc += ' ' + repr(c.get('iniOpts'))
            print(' call', ci + 1, desc)
            print('   OBS ', json.dumps(conv({kk: vv for kk, vv in o.items() if kk not in ('text', 'lines', 'pos', 'isSet', 'panicMsg')}), ensure_ascii=False)[:900])
            if o.get('lines'):
                print('   OBS lines ', [s(x) for x in o['lines']][:30])
            if k in specs and ci < len(specs[k]):
                sp = specs[k][ci]
                print('   SPEC', json.dumps(conv({kk: vv for kk, vv in sp.items() if kk != 'lines'}), ensure_ascii=False)[:900])
                if sp.get('lines'):
                    print('   SPEC lines', [s(x) for x in sp['lines']][:30])
        if k not in specs:
            print(out[-2500:])
        print(' JUDGE', re.sub(r'\s+', ' ', judges.get(k, '?')))
    shutil.rmtree(tmp)

if __name__ == '__main__':
    main()
