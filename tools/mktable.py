#!/usr/bin/env python3
"""Prints the per-property table of DESIGN.md section 12.1 from the evidence files of the last runs."""
import json, os
root = os.path.dirname(os.path.dirname(os.path.abspath(__file__)))
print('| id | tier | exhaustive model (distinct states) | scenarios replayed spec -> code | recorded scenarios validated in all | wall |')
print('|---|---|---|---|---|---|')
for i in range(1, 21):
    p = 'C%02d' % i
    try:
        e = json.load(open(os.path.join(root, 'evidence', p + '.json')))
    except Exception:
        continue
    c = e['coverage']
    print('| %s | %s | %s | %s | %s | %s s |' % (p, e.get('tier'), c.get('states'), c.get('mc_scenarios_replayed_on_impl'), c.get('traces_validated_against_impl'), round(e.get('wall_s', 0))))
