#!/usr/bin/env python3
"""Pretty-print scenario records (code points -> text) for diagnosis.
usage: show.py rec.ndjson trees.ndjson idx [idx...]"""
import json, sys

def s(cps):
    out = []
    for c in cps:
        if c >= 1114112:
            out.append('\\x%02x' % (c - 1114112))
        else:
            out.append(chr(c))
    return ''.join(out)

def conv(x):
    if isinstance(x, list):
        if x and all(type(c) is int for c in x):
            return s(x)
        return [conv(e) for e in x]
    if isinstance(x, dict):
        return {k: conv(v) for k, v in x.items()}
    return x

def main():
    recs = [json.loads(l) for l in open(sys.argv[1])]
    trees = [json.loads(l) for l in open(sys.argv[2])]
    for a in sys.argv[3:]:
        r = recs[int(a) - 1]
        print('=== record', a, 'decl', r['decl'], 'popts', r['popts'], 'handler', r['handler'], 'cmdHandler', r['cmdHandler'], 'execErr', r['execErr'])
        print('env  ', conv(r['env']))
        print('argv ', [s(t) for t in r['argv']])
        if r.get('alt'):
            print('alt  ', [s(t) for t in r['alt']], conv(r.get('altInfo')))
        o = r['obs']
        print('obs  ', json.dumps(conv({k: v for k, v in o.items() if k not in ('errMsg',)}), ensure_ascii=False))
        print('msg  ', s(o.get('errMsg', [])))
        print('tree ', json.dumps(trees[r['decl'] - 1], ensure_ascii=False))

if __name__ == '__main__':
    main()
