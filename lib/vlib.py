"""Shared machinery of the checks: scratch directories, harness build, TLC invocation,
sharded trace validation, known findings, evidence."""
import json, os, re, shutil, subprocess, sys, time, glob
from concurrent.futures import ThreadPoolExecutor

ROOT = os.path.dirname(os.path.dirname(os.path.abspath(__file__)))
SPEC = os.path.join(ROOT, 'spec')
VH = os.path.join(ROOT, 'bin', 'vh')
NCPU = os.cpu_count() or 4

GOENV = dict(os.environ, GOFLAGS='-mod=mod', GOPROXY='off', GOSUMDB='off', GOTOOLCHAIN='local')


def parallel_jvms(heap_gb):
    """how many validation JVMs (each allowed heap_gb of heap) to run side by side: all cores, unless the memory that is
    available right now would not hold them (other checks may be running on the same machine)"""
    try:
        avail = [int(l.split()[1]) for l in open('/proc/meminfo') if l.startswith('MemAvailable:')][0] // (1024 * 1024)
    except Exception:
        return NCPU
    return max(2, min(NCPU, (avail - 4) // heap_gb))


def count_lines(path):
    n = 0
    with open(path, 'rb') as f:
        for _ in f:
            n += 1
    return n


def pick_lines(path, idxs0):
    """the lines with the given 0-based indices, as {index: text}, reading the file once"""
    want = set(i for i in idxs0 if i >= 0)
    got = {}
    if not want:
        return got
    last = max(want)
    with open(path) as f:
        for i, line in enumerate(f):
            if i in want:
                got[i] = line.rstrip('\n')
            if i >= last:
                break
    return got


class ScnList:
    """scenarios TLC printed, kept on disk (one JSON object per line in each file); behaves like a read-only list of dicts"""

    def __init__(self, files=()):
        self.files = list(files)          # (path, count)

    def __len__(self):
        return sum(n for _, n in self.files)

    def __iter__(self):
        for path, _ in self.files:
            with open(path) as f:
                for line in f:
                    yield json.loads(line)

    def __add__(self, other):
        return ScnList(self.files + other.files)

    def __bool__(self):
        return len(self) > 0

    def tolist(self):
        return list(iter(self))


class Infra(Exception):
    pass


def s2cps(s):
    out = []
    for ch in s:
        out.append(ord(ch))
    return out


def cps2s(cps):
    out = []
    for c in cps:
        out.append('\\x%02x' % (c - 1114112) if c >= 1114112 else chr(c))
    return ''.join(out)


def conv(x):
    """code-point arrays -> text, recursively (for samples in evidence)"""
    if isinstance(x, list):
        if x and all(type(c) is int for c in x):
            return cps2s(x)
        return [conv(e) for e in x]
    if isinstance(x, dict):
        return {k: conv(v) for k, v in x.items()}
    return x


class Ctx:
    def __init__(self, prop, tier, seed, keep=False):
        self.prop, self.tier, self.seed, self.keep = prop, tier, seed, keep
        self.t0 = time.time()
        self.work = os.path.join(ROOT, '.work', '%s-%s-%d' % (prop, tier, os.getpid()))
        shutil.rmtree(self.work, ignore_errors=True)
        os.makedirs(self.work)
        os.makedirs(os.path.join(ROOT, 'evidence'), exist_ok=True)
        os.makedirs(os.path.join(ROOT, 'replays'), exist_ok=True)
        self.known = json.load(open(os.path.join(ROOT, 'known_findings.json')))
        self.notes = []

    def cleanup(self):
        subprocess.run(['pkill', '-f', 'tlc2.TL[C].*' + re.escape(self.work)], stderr=subprocess.DEVNULL)
        if not self.keep:
            shutil.rmtree(self.work, ignore_errors=True)

    def log(self, *a):
        print('[%s %5.1fs]' % (self.prop, time.time() - self.t0), *a, flush=True)

    # ------------------------------------------------------------ harness
    def build_harness(self):
        """The registered checks build the harness against /repo's working tree.  VERIF_REPO points the build at another
        copy of the library (used only by the mutant campaign, so that seeded changes never touch /repo)."""
        os.makedirs(os.path.join(ROOT, 'bin'), exist_ok=True)
        hd = os.path.join(ROOT, 'harness')
        repo = os.environ.get('VERIF_REPO', '/repo')
        self.vhbin = VH
        if repo != '/repo':
            hd2 = os.path.join(self.work, 'harness')
            shutil.copytree(hd, hd2)
            gm = open(os.path.join(hd2, 'go.mod')).read().replace('=> /repo', '=> ' + repo)
            open(os.path.join(hd2, 'go.mod'), 'w').write(gm)
            hd = hd2
            self.vhbin = os.path.join(self.work, 'vh')
        try:
            shutil.copy(os.path.join(repo, 'go.sum'), os.path.join(hd, 'go.sum'))
        except OSError:
            pass
        r = subprocess.run(['go', 'build', '-tags', 'verif', '-o', self.vhbin, '.'], cwd=hd, env=GOENV, capture_output=True, text=True)
        if r.returncode != 0:
            raise Infra('harness does not build against %s:\n' % repo + r.stderr[-3000:])

    def vh(self, *args, timeout=3600):
        r = subprocess.run([self.vhbin] + [str(x) for x in args], cwd=self.work, capture_output=True, text=True, timeout=timeout)
        if r.returncode != 0:
            raise Infra('vh %s failed: %s' % (args[0], r.stderr[-2000:]))
        return r.stdout

    # ------------------------------------------------------------ TLC
    def specdir(self, name):
        d = os.path.join(self.work, name)
        os.makedirs(d, exist_ok=True)
        for f in glob.glob(os.path.join(SPEC, '*.tla')):
            shutil.copy(f, d)
        return d

    def tlc(self, d, module, cfgtext, workers=1, timeout=3600, extra=(), heap=None):
        cfg = os.path.join(d, module + '.cfg')
        open(cfg, 'w').write(cfgtext)
        env = dict(os.environ)
        opts = '-Xss256m'
        if heap:
            opts += ' -Xmx' + heap
        env['JAVA_TOOL_OPTIONS'] = opts
        cmd = ['timeout', str(timeout), 'tlc', '-workers', str(workers), '-metadir', os.path.join(d, 'meta-' + module),
               '-config', module + '.cfg'] + list(extra) + [module + '.tla']
        # TLC's output goes to a file; the scenario lines ("SCN {json}", possibly millions) are moved to <module>.scn
        # as plain JSON lines and are not kept in memory; what is returned is the rest of the output
        raw = os.path.join(d, module + '.raw')
        with open(raw, 'w') as fo, open(os.path.join(d, module + '.err'), 'w') as fe:
            r = subprocess.run(cmd, cwd=d, env=env, stdout=fo, stderr=fe, text=True)
        keep = []
        nscn = 0
        with open(raw, errors='replace') as fi, open(os.path.join(d, module + '.scn'), 'w') as fs:
            for line in fi:
                if line.startswith('"SCN ') and line.rstrip('\n').endswith('"'):
                    fs.write(line.rstrip('\n')[5:-1].replace('\\"', '"').replace('\\\\', '\\') + '\n')
                    nscn += 1
                else:
                    keep.append(line)
        os.remove(raw)
        out = ''.join(keep)
        open(os.path.join(d, module + '.out'), 'w').write(out + '\n--- stderr ---\n' + open(os.path.join(d, module + '.err')).read())
        self.last_scn = (os.path.join(d, module + '.scn'), nscn)
        if r.returncode == 124:
            raise Infra('TLC timed out on %s' % module)
        return r.returncode, out

    @staticmethod
    def tlc_counts(out):
        m = re.search(r'(\d+) states generated, (\d+) distinct states found', out)
        if not m:
            return 0, 0
        return int(m.group(2)), int(m.group(1))

    @staticmethod
    def tlc_ok(out):
        return 'Model checking completed. No error has been found.' in out

    @staticmethod
    def tlc_error_summary(out):
        keep = [l for l in out.splitlines() if not re.match(r'^(Parsing|Semantic|Linting|Picked up|"SCN )', l)]
        return '\n'.join(keep[-60:])

    # ------------------------------------------------------------ trace validation
    def validate(self, name, module, recfile, declsfile, props, defects=(), shards=None, timeout=3600, extra_files=()):
        """Splits recfile into shards and validates each with TLC.  Returns (bad, stats, n):
        bad[prop] = sorted list of 1-based record indices judged bad."""
        n = count_lines(recfile)
        bad = {p: [] for p in props}
        stats = {}
        if n == 0:
            return bad, stats, 0
        k = shards or max(1, min(NCPU, n // 300 + 1))
        cfg = 'SPECIFICATION Spec\nCONSTANT Defects = {%s}\nINVARIANT JudgeRecord\nCHECK_DEADLOCK FALSE\nPOSTCONDITION Post\n' % ', '.join('"%s"' % x for x in defects)
        jobs = []
        with open(recfile) as fin:                     # the records are streamed into the shard files, never held in memory
            for i in range(k):
                lo, hi = i * n // k, (i + 1) * n // k
                if lo == hi:
                    continue
                d = self.specdir('%s-shard%d' % (name, i))
                with open(os.path.join(d, 'trace.ndjson'), 'w') as fo:
                    for _ in range(hi - lo):
                        fo.write(fin.readline().rstrip('\n') + '\n')
                shutil.copy(declsfile, os.path.join(d, 'decls.ndjson'))
                for f in extra_files:
                    shutil.copy(f, d)
                jobs.append((d, lo, hi))

        def run(job):
            d, lo, hi = job
            rc, out = self.tlc(d, module, cfg, workers=1, timeout=timeout, heap='3g')
            return job, rc, out
        with ThreadPoolExecutor(max_workers=parallel_jvms(3)) as ex:
            results = list(ex.map(run, jobs))
        for (d, lo, hi), rc, out in results:
            m = re.search(r'<<\s*"VERIF-CONSUMED",\s*(\d+),\s*(\d+)\s*>>', out)
            if not m or int(m.group(1)) != hi - lo or int(m.group(2)) != hi - lo:
                raise Infra('trace validation did not consume its shard (%s):\n%s' % (d, self.tlc_error_summary(out)))
            for mm in re.finditer(r'<<\s*"VERIF-BAD",\s*"(\w+)",\s*\{([^}]*)\}\s*>>', out):
                p = mm.group(1)
                ids = [int(x) + lo for x in mm.group(2).replace('\n', ' ').split(',') if x.strip()]
                if p in bad:
                    bad[p].extend(ids)
            ms = re.search(r'<<\s*"VERIF-STAT",\s*(\[.*?\])\s*>>', out, re.S)
            if ms:
                for kv in re.finditer(r'(\w+) \|-> (\d+)', ms.group(1)):
                    stats[kv.group(1)] = stats.get(kv.group(1), 0) + int(kv.group(2))
            if not self.keep:
                shutil.rmtree(d, ignore_errors=True)
        for p in bad:
            bad[p].sort()
        return bad, stats, n

    # ------------------------------------------------------------ results
    def save_replay(self, tag, record_line, trees_line=None, extra=None):
        path = os.path.join(ROOT, 'replays', '%s-%s-seed%d-%s.json' % (self.prop, self.tier, self.seed, tag))
        obj = {'property': self.prop, 'record': json.loads(record_line)}
        if trees_line:
            obj['tree'] = json.loads(trees_line)
        if extra:
            obj.update(extra)
        json.dump(obj, open(path, 'w'), ensure_ascii=False)
        return path

    def evidence(self, coverage, violations, assumptions):
        ev = {
            'property_id': self.prop, 'tier': self.tier, 'seed': self.seed, 'level': 'model_checking',
            'coverage': coverage, 'assumptions': assumptions, 'wall_s': round(time.time() - self.t0, 1),
            'violations': violations,
        }
        path = os.path.join(ROOT, 'evidence', self.prop + '.json')
        tmp = path + '.tmp'
        json.dump(ev, open(tmp, 'w'), ensure_ascii=False, indent=1)
        os.replace(tmp, path)
