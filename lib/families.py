"""Per-family pipelines and per-property bounds."""
import json, os, re, shutil, subprocess, sys, time
from vlib import *

# ---------------------------------------------------------------------------------------------
# Argument-parsing family (ArgParse.tla): C01 C02 C03 C04 C06 C07 C08 C09 C10
# ---------------------------------------------------------------------------------------------

PASS3 = ['<<>>', '<<"PassDoubleDash">>', '<<"IgnoreUnknown">>', '<<"PassAfterNonOption">>',
         '<<"PassDoubleDash", "IgnoreUnknown">>', '<<"PassDoubleDash", "PassAfterNonOption">>',
         '<<"IgnoreUnknown", "PassAfterNonOption">>', '<<"PassDoubleDash", "IgnoreUnknown", "PassAfterNonOption">>']
DEFAULTISH = ['<<>>', '<<"PassDoubleDash">>', '<<"HelpFlag", "PassDoubleDash", "PrintErrors">>', '<<"IgnoreUnknown", "PassAfterNonOption">>']

ALL_INVS = ['Deterministic', 'Terminates', 'Typed', 'ConservationStep', 'Conservation', 'ChainFromWords', 'ScopeAgrees',
            'OccInScope', 'UnknownNeverSilent', 'ExecSafety', 'RequiredEnforced', 'ValuesDenote', 'UntouchedWithoutOccurrence', 'ActiveIsChain']

# exhaustive-model bounds per property: quick / thorough
ARG_MC = {
    'C01': dict(decls=[1, 2, 9], policy=['opts', 'clusters'], popts=['<<>>', '<<"PassDoubleDash">>'], handlers=['none'],
                maxlen=(2, 3), thorough_decls=[2, 8, 9, 6]),
    'C03': dict(decls=[4, 5], policy=['opts', 'cmds', 'odd', 'unknown'], popts=PASS3, handlers=['none'], maxlen=(3, 4), thorough_decls=[5]),
    'C04': dict(decls=[1, 3, 8], policy=['opts', 'cmds', 'odd', 'unknown', 'help', 'fmt'], popts=DEFAULTISH + ['<<"HelpFlag", "PrintErrors">>'],
                handlers=['none', 'error'], maxlen=(2, 3), thorough_decls=[3, 5, 9]),
    'C06': dict(decls=[7], policy=['opts', 'cmds', 'clusters'], popts=['<<>>', '<<"PassDoubleDash">>'], handlers=['none'], maxlen=(3, 4), thorough_decls=[7]),
    'C07': dict(decls=[2, 3, 10], policy=['opts', 'cmds', 'unknown', 'near'], popts=['<<>>', '<<"IgnoreUnknown">>', '<<"IgnoreUnknown", "PassAfterNonOption">>'],
                handlers=['none', 'identity', 'dropnext', 'dropall', 'inject', 'error'], maxlen=(2, 3), thorough_decls=[2]),
    'C08': dict(decls=[13, 10], policy=['opts', 'cmds', 'odd'], popts=['<<>>', '<<"PassDoubleDash">>'], handlers=['none'], maxlen=(3, 5), thorough_decls=[5]),
    'C09': dict(decls=[3, 5, 7], policy=['opts', 'cmds', 'unknown', 'help'], popts=['<<>>', '<<"HelpFlag">>', '<<"HelpFlag", "PrintErrors", "PassDoubleDash">>'],
                handlers=['none'], maxlen=(3, 5), thorough_decls=[5]),
    'C10': dict(decls=[4, 5, 7], policy=['opts', 'cmds', 'odd'], popts=PASS3, handlers=['none'], maxlen=(3, 4), thorough_decls=[4, 5]),
}
# a second exhaustive model for the properties that speak about the active chain: the judged parse is the SECOND ParseArgs of one
# parser, after a first one that selected each command path of the three-level declaration D18
ARG_MC_REUSE = {
    'C06': dict(decls=[18], policy=['opts', 'cmds'], popts=['<<>>'], handlers=['none'], maxlen=(2, 3), thorough_decls=[18, 13], premode='cmds'),
    'C08': dict(decls=[18], policy=['opts', 'cmds'], popts=['<<>>'], handlers=['none'], maxlen=(2, 3), thorough_decls=[18, 13], premode='cmds'),
    'C09': dict(decls=[18], policy=['opts', 'cmds', 'unknown'], popts=['<<>>', '<<"HelpFlag">>'], handlers=['none'], maxlen=(2, 3), thorough_decls=[18, 13], premode='cmds'),
}
# random direction: (trees, scenarios per tree) quick / thorough
ARG_RANDOM = {'quick': (120, 60), 'thorough': (3000, 80)}

ARG_DOMKEY = {'C11': 'd11', 'C01': 'd01', 'C02': 'd02', 'C03': 'd03', 'C04': 'd04', 'C06': 'd06', 'C07': 'd07', 'C08': 'd08', 'C09': 'd09', 'C10': 'd10'}
ARG_PROPS = ['C01', 'C02', 'C03', 'C04', 'C06', 'C07', 'C08', 'C09', 'C10', 'C11', 'C15', 'DRIFT', 'MSG']


class ArgParseFamily:
    name = 'argparse'

    def mc(self, ctx, prop):
        thorough = ctx.tier == 'thorough'
        states, gen, scns, d, info = self.mc_one(ctx, ARG_MC[prop], 'mc', thorough)
        if thorough:
            # the thorough tier explores the quick tier's bounds as well (other declarations, shorter vectors)
            s2, g2, scns2, d2, info2 = self.mc_one(ctx, ARG_MC[prop], 'mcq', False)
            states, gen, scns = states + s2, gen + g2, scns + scns2
            info = dict(info, quick_bounds_model=info2)
        if prop in ARG_MC_REUSE:
            s2, g2, scns2, d2, info2 = self.mc_one(ctx, ARG_MC_REUSE[prop], 'mcr', thorough)
            states, gen, scns = states + s2, gen + g2, scns + scns2
            info = dict(info, reused_parser_model=info2)
        return states, gen, scns, d, info

    def mc_one(self, ctx, b, tag, thorough):
        """exhaustive run of MC_ArgParse with the given bounds; returns (states, transitions, scenario lines)"""
        d = ctx.specdir(tag)
        cat = os.path.join(ROOT, 'catalog', 'argparse.ndjson')
        ctx.vh('decls', '-trees', cat, '-decls', os.path.join(d, 'catalog_decls.ndjson'))
        decls = b['thorough_decls'] if thorough else b['decls']
        maxlen = b['maxlen'][1 if thorough else 0]
        open(os.path.join(d, 'MCrun.tla'), 'w').write(
            '---- MODULE MCrun ----\nEXTENDS MC_ArgParse\nc_POptSets == {%s}\n====\n' % ', '.join(b['popts']))
        cfg = ('SPECIFICATION Spec\nCONSTANTS\n  Defects = {}\n  DeclIds = {%s}\n  MaxLen = %d\n  POptSets <- c_POptSets\n'
               '  Handlers = {%s}\n  Policy = {%s}\n  PreMode = "%s"\n  Emit = TRUE\nINVARIANTS\n  %s EmitScenario\nPROPERTIES\n  ExecOnlyAtDispatch\nCHECK_DEADLOCK FALSE\n'
               % (', '.join(map(str, decls)), maxlen, ', '.join('"%s"' % h for h in b['handlers']),
                  ', '.join('"%s"' % p for p in b['policy']), b.get('premode', 'none'), ' '.join(ALL_INVS)))
        rc, out = ctx.tlc(d, 'MCrun', cfg, workers=NCPU, timeout=3000)
        if not ctx.tlc_ok(out):
            # an invariant of the specification itself failed: the model is wrong (or a defect switch is on); not a verdict about the code
            raise Infra('exhaustive model check did not complete cleanly:\n' + ctx.tlc_error_summary(out))
        states, gen = ctx.tlc_counts(out)
        scns = parse_scn(out, ctx)
        return states, gen, scns, d, dict(decls=decls, maxlen=maxlen, popts=len(b['popts']), handlers=b['handlers'], policy=b['policy'], premode=b.get('premode', 'none'))

    def mc_spell(self, ctx):
        """C02: exhaustive pair model MC_Spell"""
        thorough = ctx.tier == 'thorough'
        d = ctx.specdir('mc')
        cat = os.path.join(ROOT, 'catalog', 'argparse.ndjson')
        ctx.vh('decls', '-trees', cat, '-decls', os.path.join(d, 'catalog_decls.ndjson'))
        decls = [1, 2, 3, 6, 8, 9] if thorough else [1, 9]
        ctxlen = 1 if not thorough else 1
        popts = ['<<>>', '<<"PassDoubleDash">>'] + (['<<"IgnoreUnknown", "PassAfterNonOption">>'] if thorough else [])
        open(os.path.join(d, 'MCrun.tla'), 'w').write('---- MODULE MCrun ----\nEXTENDS MC_Spell\nc_POptSets == {%s}\n====\n' % ', '.join(popts))
        cfg = ('SPECIFICATION Spec\nCONSTANTS\n  Defects = {}\n  DeclIds = {%s}\n  CtxLen = %d\n  POptSets <- c_POptSets\n  Emit = TRUE\n'
               'INVARIANTS PairAgree EmitPair\nCHECK_DEADLOCK FALSE\n' % (', '.join(map(str, decls)), ctxlen))
        rc, out = ctx.tlc(d, 'MCrun', cfg, workers=NCPU, timeout=3000)
        if not ctx.tlc_ok(out):
            raise Infra('exhaustive pair model did not complete cleanly:\n' + ctx.tlc_error_summary(out))
        states, gen = ctx.tlc_counts(out)
        scns = parse_scn(out, ctx)
        return states, gen, scns, d, dict(decls=decls, ctxlen=ctxlen, popts=len(popts), pairs=len(scns))

    def mc_conv(self, ctx):
        """C11: MC_Conv over the conversion declarations (one per element type x base)"""
        thorough = ctx.tier == 'thorough'
        d = ctx.specdir('mc')
        ctx.vh('conv-trees', '-trees', os.path.join(d, 'conv_trees.ndjson'), '-decls', os.path.join(d, 'conv_decls.ndjson'))
        ndecl = len(open(os.path.join(d, 'conv_decls.ndjson')).read().splitlines())
        decls = list(range(1, ndecl + 1))
        maxdig = 4 if thorough else 3
        cfg = ('SPECIFICATION Spec\nCONSTANTS\n  Defects = {}\n  DeclIds = {%s}\n  MaxDig = %d\n  Emit = TRUE\n'
               'INVARIANTS NativeAgree RenderInverse Total EmitScn\nCHECK_DEADLOCK FALSE\n' % (', '.join(map(str, decls)), maxdig))
        rc, out = ctx.tlc(d, 'MC_Conv', cfg, workers=NCPU, timeout=3000)
        if not ctx.tlc_ok(out):
            raise Infra('exhaustive conversion model did not complete cleanly:\n' + ctx.tlc_error_summary(out))
        states, gen = ctx.tlc_counts(out)
        scns = parse_scn(out, ctx)
        self.cat_override = (os.path.join(d, 'conv_trees.ndjson'), os.path.join(d, 'conv_decls.ndjson'))
        return states, gen, scns, d, dict(module='MC_Conv', declarations=ndecl, maxdig=maxdig)

    def run(self, ctx):
        prop = ctx.prop
        self.cat_override = None
        assumptions = [
            'TLC explores the bounded specification exhaustively; bounds are those listed under coverage.mc_bounds',
            'conversion of floats and durations is specified on the finite literal table spec/FTab.tla only (Go standard library is trusted for rounding)',
            'scenarios where the specification is silent (grey: optional argument without optional-value, escapes outside Quote.tla) produce no verdict',
        ]
        # 1+2: exhaustive model + replay of every enumerated scenario on the real code
        mcinfo = None
        mc_states = mc_trans = 0
        mc_records = 0
        bad_all = []           # (source, index, line)
        samples = []
        domcount = 0
        drift = 0
        msgdrift, msgcmp = 0, 0
        if prop in ARG_MC or prop in ('C02', 'C11'):
            if prop == 'C11':
                mc_states, mc_trans, scns, d, mcinfo = self.mc_conv(ctx)
            elif prop == 'C02':
                mc_states, mc_trans, scns, d, mcinfo = self.mc_spell(ctx)
                if ctx.tier == 'quick' and len(scns) > 120000:      # replay a seeded sample of the enumerated pairs in the quick tier
                    import random
                    scns = scns.tolist() if isinstance(scns, ScnList) else scns
                    random.Random(ctx.seed).shuffle(scns)
                    scns = scns[:120000]
            else:
                mc_states, mc_trans, scns, d, mcinfo = self.mc(ctx, prop)
            ctx.log('exhaustive model: %d distinct states, %d scenarios enumerated' % (mc_states, len(scns)))
            scen = os.path.join(ctx.work, 'mc_scen.ndjson')
            with open(scen, 'w') as f:
                for i, s in enumerate(scns, 1):
                    s.update({'fam': 'argparse', 'id': i, 'tags': ['mc']})
                    f.write(json.dumps(s) + '\n')
            cat = os.path.join(ROOT, 'catalog', 'argparse.ndjson')
            catdecls = os.path.join(d, 'catalog_decls.ndjson')
            if self.cat_override:
                cat, catdecls = self.cat_override
            rec = os.path.join(ctx.work, 'mc_rec.ndjson')
            ctx.vh('run', '-trees', cat, '-scen', scen, '-out', rec, '-workers', NCPU)
            bad, stats, n = ctx.validate('mcv', 'Trace_ArgParse', rec, catdecls, ARG_PROPS)
            mc_records = n
            domcount += stats.get(ARG_DOMKEY[prop], 0)
            drift += len(bad['DRIFT'])
            msgdrift += len(bad.get('MSG', []))
            msgcmp += stats.get('msg', 0)
            trees = open(cat).read().splitlines()
            want = [i - 1 for i in bad[prop][:50]] + ([0, n // 2, n - 1] if n else [])
            got = pick_lines(rec, want)
            for i in bad[prop][:50]:
                bad_all.append(('mc', i, got[i - 1], trees))
            nbad_extra = max(0, len(bad[prop]) - 50)
            samples += [self.sample(got[k]) for k in (0, n // 2, n - 1) if n]
            ctx.log('replayed %d TLC-enumerated scenarios on the real code: %d disagree on %s' % (n, len(bad[prop]), prop))
        # 3: random direction
        nt, per = ARG_RANDOM[ctx.tier]
        ctx.vh('gen', '-seed', ctx.seed, '-ntrees', nt, '-per', per, '-trees', 'r_trees.ndjson', '-decls', 'r_decls.ndjson', '-scen', 'r_scen.ndjson')
        ctx.vh('run', '-trees', 'r_trees.ndjson', '-scen', 'r_scen.ndjson', '-out', 'r_rec.ndjson', '-workers', NCPU)
        rrec = os.path.join(ctx.work, 'r_rec.ndjson')
        bad, stats, rn = ctx.validate('rv', 'Trace_ArgParse', rrec, os.path.join(ctx.work, 'r_decls.ndjson'), ARG_PROPS)
        domcount += stats.get(ARG_DOMKEY[prop], 0)
        drift += len(bad['DRIFT'])
        msgdrift += len(bad.get('MSG', []))
        msgcmp += stats.get('msg', 0)
        rtrees = open(os.path.join(ctx.work, 'r_trees.ndjson')).read().splitlines()
        got = pick_lines(rrec, [i - 1 for i in bad[prop][:50]] + ([0, rn // 3, 2 * rn // 3] if rn else []))
        for i in bad[prop][:50]:
            bad_all.append(('random', i, got[i - 1], rtrees))
        samples += [self.sample(got[k]) for k in (0, rn // 3, 2 * rn // 3) if rn]
        ctx.log('validated %d recorded random scenarios: %d disagree on %s; %d in the property\'s domain; model drift %d; error-message wording compared %d, differing %d'
                % (rn, len(bad[prop]), prop, domcount, drift, msgcmp, msgdrift))
        # 3b: the property seen through the other API entry points
        cross = {'C04': ('C16', 'help requests through ParseArgs at every terminal width (help family)'),
                 'C06': ('C05', 'required options across INI reads, as-defaults reads, environment and several parses (session family)')}.get(prop)
        if cross:
            xfam = PROPS[cross[0]]
            xbad, xstats, xn, xlines, xtrees = xfam.random_part(ctx, prop, 'sources' if prop == 'C06' else 'help')
            for i in xbad[prop][:50]:
                bad_all.append(('x' + xfam.fam, i, xlines[i - 1], xtrees))
            rn += xn
            ctx.log('validated %d recorded scenarios of the %s: %d disagree on %s' % (xn, cross[1], len(xbad[prop]), prop))
        # 4: classify
        viol = 0
        known_hits = {}
        for src, i, line, trees in bad_all:
            r = json.loads(line)
            kf = self.classify(ctx, r, line, trees) if 'argv' in r else None
            if kf:
                known_hits.setdefault(kf['name'], [0, kf])[0] += 1
                continue
            viol += 1
            if viol <= 5:
                path = ctx.save_replay('%s%d' % (src, i), line, trees[r['decl'] - 1])
                print('VIOLATION property=%s replay=%s' % (prop, path), flush=True)
                if 'argv' in r:
                    print('  argv=%s popts=%s obs.errType=%s' % ([cps2s(t) for t in r['argv']], r['popts'], r['obs']['errType']), flush=True)
                else:
                    print('  ' + json.dumps({k: v for k, v in r.items() if k not in ('obs',)}, ensure_ascii=False)[:500], flush=True)
        for name, (cnt, kf) in known_hits.items():
            print('KNOWN-FINDING: property=%s %s (%d scenarios of this run)' % (prop, kf['what_fails'], cnt), flush=True)
        cov = {
            'states': max(mc_states, 1), 'transitions': max(mc_trans, 1),
            'traces_validated_against_impl': mc_records + rn,
            'samples': samples[:6],
            'exhaustive': False,
            'mc_bounds': mcinfo, 'mc_scenarios_replayed_on_impl': mc_records, 'random_scenarios_recorded_and_validated': rn,
            'in_property_domain': domcount, 'grey_no_verdict': stats.get('grey', 0), 'model_drift_records': drift,
            'error_message_wordings_compared': msgcmp, 'error_message_wordings_differing': msgdrift,
            'known_finding_hits': {k: v[0] for k, v in known_hits.items()},
            'rule': 'a scenario is (declaration, parser options, handler, environment, argv); the exhaustive part enumerates all vectors up to mc_bounds.maxlen over the alphabet the specification derives from each catalogue declaration; the random part builds validity-biased vectors over random declarations; in_property_domain counts scenarios that meet the property\'s antecedent',
        }
        ctx.evidence(cov, viol, assumptions)
        return 1 if viol else 0

    def sample(self, line):
        r = json.loads(line)
        return {'decl': r['decl'], 'popts': r['popts'], 'handler': r['handler'], 'argv': [cps2s(t) for t in r['argv']],
                'real_outcome': {'errType': r['obs']['errType'], 'retargs': [cps2s(t) for t in r['obs']['retargs']], 'chain': r['obs']['chain']}}

    def classify(self, ctx, r, line, trees):
        """A disagreement is attributed to a listed finding only if its input has the listed shape and the
        specification with that finding's switch on reproduces the real outcome exactly."""
        for kf in ctx.known:
            if kf.get('status') != 'known' or ctx.prop not in kf['properties'] or kf.get('family') != 'argparse':
                continue
            # shape predicates are evaluated by the specification itself (the switch only changes the one decision)
            d = ctx.specdir('kf')
            open(os.path.join(d, 'trace.ndjson'), 'w').write(line + '\n')
            with open(os.path.join(d, 'decls.ndjson'), 'w') as f:
                # re-flatten only the needed tree is not possible without vh; reuse the run's file
                pass
            src = os.path.join(ctx.work, 'r_decls.ndjson') if 'mc' not in r.get('tags', []) else os.path.join(ctx.work, 'mc', 'catalog_decls.ndjson')
            shutil.copy(src, os.path.join(d, 'decls.ndjson'))
            cfg = 'SPECIFICATION Spec\nCONSTANT Defects = {"%s"}\nINVARIANT JudgeRecord\nCHECK_DEADLOCK FALSE\nPOSTCONDITION Post\n' % kf['switch']
            rc, out = ctx.tlc(d, 'Trace_ArgParse', cfg, workers=1, timeout=600, heap='2g')
            m = re.search(r'<<\s*"VERIF-BAD",\s*"DRIFT",\s*\{([^}]*)\}\s*>>', out)
            if m is not None and m.group(1).strip() == '':
                return kf
        return None

    def replay(self, ctx, path):
        obj = json.load(open(path))
        rec = obj['record']
        if rec.get('fam') in ('help', 'session'):            # the record of a cross-family part (C04 help requests, C06 sessions)
            return PROPS['C16' if rec['fam'] == 'help' else 'C05'].replay(ctx, path)
        tree = obj['tree']
        tree['id'] = 1
        rec['decl'] = 1
        rec.pop('obs', None)
        rec.pop('obsAlt', None)
        open(os.path.join(ctx.work, 't.ndjson'), 'w').write(json.dumps(tree) + '\n')
        open(os.path.join(ctx.work, 's.ndjson'), 'w').write(json.dumps(rec) + '\n')
        ctx.vh('decls', '-trees', 't.ndjson', '-decls', 'd.ndjson')
        ctx.vh('run', '-trees', 't.ndjson', '-scen', 's.ndjson', '-out', 'r.ndjson', '-workers', 1)
        bad, stats, n = ctx.validate('rp', 'Trace_ArgParse', os.path.join(ctx.work, 'r.ndjson'), os.path.join(ctx.work, 'd.ndjson'), ARG_PROPS)
        r = json.loads(open(os.path.join(ctx.work, 'r.ndjson')).read())
        print('argv   :', [cps2s(t) for t in r['argv']])
        print('real   :', json.dumps(conv({k: v for k, v in r['obs'].items() if k not in ('errMsg',)}), ensure_ascii=False))
        print('message:', cps2s(r['obs'].get('errMsg', [])))
        print('judged bad for:', [p for p in bad if bad[p]])
        if bad[ctx.prop]:
            print('VIOLATION property=%s replay=%s' % (ctx.prop, path))
            return 1
        return 0


# ---------------------------------------------------------------------------------------------
# Generic pipeline for the families whose scenarios carry their own declaration
# ---------------------------------------------------------------------------------------------

def parse_scn(out, ctx=None):
    """the scenarios of the TLC run that has just ended (vlib.Ctx.tlc moved them to a file)"""
    if ctx is not None and getattr(ctx, 'last_scn', None):
        return ScnList([ctx.last_scn])
    scns = []
    for m in re.finditer(r'^"SCN (.*)"$', out, re.M):
        scns.append(json.loads(m.group(1).replace('\\"', '"').replace('\\\\', '\\')))
    return scns


class SimpleFamily:
    """mc_module/mc_cfg(tier): exhaustive model that also emits SCN lines; gen_cmd(tier, seed): harness generator;
    trace_module: judges records; domkeys: stat keys summed into in_property_domain."""
    fam = ''
    mc_module = ''
    trace_module = ''
    props = []
    domkeys = []
    assumptions = []
    extra_spec_files = ()

    def mc_cfg(self, ctx):
        raise NotImplementedError

    def gen_args(self, ctx):
        raise NotImplementedError

    def sample(self, r):
        return conv({k: v for k, v in r.items() if k != 'obs'} | {'real_outcome': conv(r.get('obs', {}))})

    def describe(self, r):
        return json.dumps(conv({k: v for k, v in r.items() if k not in ('obs',)}), ensure_ascii=False)[:400]

    def mc(self, ctx):
        d = ctx.specdir('mc')
        self.prepare_mc(ctx, d)
        cfg, info, workers = self.mc_cfg(ctx)
        rc, out = ctx.tlc(d, self.mc_module, cfg, workers=workers, timeout=3000)
        if not ctx.tlc_ok(out):
            raise Infra('exhaustive model check did not complete cleanly:\n' + ctx.tlc_error_summary(out))
        states, gen = ctx.tlc_counts(out)
        return states, gen, parse_scn(out, ctx), info

    def prepare_mc(self, ctx, d):
        pass

    def validate(self, ctx, name, rec):
        return ctx.validate(name, self.trace_module, rec, os.devnull, self.props, extra_files=self.extra_spec_files)

    def run(self, ctx):
        prop = ctx.prop
        mc_states, mc_trans, scns, mcinfo = self.mc(ctx)
        ctx.log('exhaustive model: %d distinct states, %d scenarios enumerated' % (mc_states, len(scns)))
        bad_all, samples, domcount, drift, mc_records, stats_all = [], [], 0, 0, 0, {}
        if scns:
            scen = os.path.join(ctx.work, 'mc_scen.ndjson')
            with open(scen, 'w') as f:
                for i, sc in enumerate(scns, 1):
                    sc['id'] = i
                    f.write(json.dumps(sc) + '\n')
            rec = os.path.join(ctx.work, 'mc_rec.ndjson')
            ctx.vh('run', '-scen', scen, '-out', rec, '-workers', NCPU)
            bad, stats, n = self.validate(ctx, 'mcv', rec)
            mc_records = n
            for k, v in stats.items():
                stats_all[k] = stats_all.get(k, 0) + v
            drift += len(bad.get('DRIFT', []))
            lines = open(rec).read().splitlines()
            for i in bad[prop]:
                bad_all.append(('mc', i, lines[i - 1]))
            samples += [self.sample(json.loads(lines[k])) for k in (len(lines) // 3, 2 * len(lines) // 3) if lines]
            ctx.log('replayed %d TLC-enumerated scenarios on the real code: %d disagree on %s' % (n, len(bad[prop]), prop))
        ctx.vh(*self.gen_args(ctx))
        rrec = os.path.join(ctx.work, 'r_rec.ndjson')
        ctx.vh('run', '-scen', 'r_scen.ndjson', '-out', rrec, '-workers', NCPU)
        bad, stats, rn = self.validate(ctx, 'rv', rrec)
        for k, v in stats.items():
            stats_all[k] = stats_all.get(k, 0) + v
        drift += len(bad.get('DRIFT', []))
        rlines = open(rrec).read().splitlines()
        for i in bad[prop]:
            bad_all.append(('random', i, rlines[i - 1]))
        samples += [self.sample(json.loads(rlines[k])) for k in (0, len(rlines) // 2) if rlines]
        domcount = sum(stats_all.get(k, 0) for k in self.domkeys)
        ctx.log('validated %d recorded random scenarios: %d disagree on %s; stats %s' % (rn, len(bad[prop]), prop, stats_all))
        viol, known_hits = 0, {}
        for src, i, line in bad_all:
            r = json.loads(line)
            kf = self.classify(ctx, r, line)
            if kf:
                known_hits.setdefault(kf['name'], [0, kf])[0] += 1
                continue
            viol += 1
            if viol <= 5:
                path = ctx.save_replay('%s%d' % (src, i), line)
                print('VIOLATION property=%s replay=%s' % (prop, path), flush=True)
                print('  ' + self.describe(r), flush=True)
        for name, (cnt, kf) in known_hits.items():
            print('KNOWN-FINDING: property=%s %s (%d scenarios of this run)' % (prop, kf['what_fails'], cnt), flush=True)
        cov = {'states': max(mc_states, 1), 'transitions': max(mc_trans, 1), 'traces_validated_against_impl': mc_records + rn,
               'samples': samples[:5], 'exhaustive': False, 'mc_bounds': mcinfo, 'mc_scenarios_replayed_on_impl': mc_records,
               'random_scenarios_recorded_and_validated': rn, 'in_property_domain': domcount, 'class_counts': stats_all,
               'model_drift_records': drift, 'known_finding_hits': {k: v[0] for k, v in known_hits.items()}, 'rule': self.rule}
        ctx.evidence(cov, viol, self.assumptions)
        return 1 if viol else 0

    def classify(self, ctx, r, line):
        for kf in ctx.known:
            if kf.get('status') != 'known' or ctx.prop not in kf['properties'] or kf.get('family') != self.fam:
                continue
            d = ctx.specdir('kf')
            open(os.path.join(d, 'trace.ndjson'), 'w').write(line + '\n')
            cfg = 'SPECIFICATION Spec\nCONSTANT Defects = {"%s"}\nINVARIANT JudgeRecord\nCHECK_DEADLOCK FALSE\nPOSTCONDITION Post\n' % kf['switch']
            rc, out = ctx.tlc(d, self.trace_module, cfg, workers=1, timeout=600, heap='2g')
            m = re.search(r'<<\s*"VERIF-BAD",\s*"%s",\s*\{([^}]*)\}\s*>>' % ctx.prop, out)
            if m is not None and m.group(1).strip() == '' and self.shape_ok(kf, r):
                return kf
        return None

    def shape_ok(self, kf, r):
        return True

    def replay(self, ctx, path):
        obj = json.load(open(path))
        rec = obj['record']
        rec.pop('obs', None)
        open(os.path.join(ctx.work, 's.ndjson'), 'w').write(json.dumps(rec) + '\n')
        ctx.vh('run', '-scen', 's.ndjson', '-out', 'r.ndjson', '-workers', 1)
        bad, stats, n = self.validate(ctx, 'rp', os.path.join(ctx.work, 'r.ndjson'))
        r = json.loads(open(os.path.join(ctx.work, 'r.ndjson')).read())
        print('scenario:', self.describe(r))
        print('real    :', json.dumps(conv(r['obs']), ensure_ascii=False)[:1500])
        print('judged bad for:', [p for p in bad if bad[p]])
        if bad[ctx.prop]:
            print('VIOLATION property=%s replay=%s' % (ctx.prop, path))
            return 1
        return 0


class ClosestFamily(SimpleFamily):
    fam = 'closest'
    mc_module = 'MC_Closest'
    trace_module = 'Trace_Closest'
    props = ['C20', 'C15', 'DRIFT']
    domkeys = ['suggest', 'enum']
    rule = ('a scenario is (command names with hidden marks, given word or none); exhaustive part: all words and name pairs up to mc_bounds.maxl '
            'over mc_bounds.alpha, random part: dictionary and random names with 1-3 edits of a declared name; suggest/enum count the scenarios '
            'whose allowed outcomes contain a suggestion / an enumeration')
    assumptions = ['any nearest visible command may be the one suggested (ties are not ordered by the property)',
                   'command names are free of ", " and " or " so that the enumeration in the message can be split']

    def mc_cfg(self, ctx):
        # thorough: 4 letters up to length 3 (85 strings, 614 k triples); length 4 over 4 letters would be 39 M triples
        maxl = 3
        alpha = '{97, 98, 233, 19990}' if ctx.tier == 'thorough' else '{97, 98, 233}'
        cfg = ('SPECIFICATION Spec\nCONSTANTS\n  Defects = {}\n  Alpha = %s\n  MaxL = %d\n  Emit = TRUE\n'
               'INVARIANTS Metric Diagnosis EmitScn\nCHECK_DEADLOCK FALSE\n' % (alpha, maxl))
        return cfg, dict(alpha=alpha, maxl=maxl), NCPU

    def gen_args(self, ctx):
        n = 600000 if ctx.tier == 'thorough' else 20000
        return ['gen-closest', '-seed', ctx.seed, '-n', n, '-scen', 'r_scen.ndjson']


# ---------------------------------------------------------------------------------------------
# Session family (Ini.tla + ArgParse.tla): C05 C12 C13 C14 C15(ini part)
# ---------------------------------------------------------------------------------------------

SESSION_PROPS = ['C05', 'C06', 'C12', 'C13', 'C14', 'C15', 'DRIFT']
SESSION = {
    # prop: (mc module, mode, decls quick, decls thorough, maxlines quick/thorough, generator kind, domain stat key)
    'C14': dict(mc='MC_Ini', mode='read', decls=([1, 11], [1, 3, 11]), maxlines=(2, 3), kind='robust', dom='ini', invs='ReadInvariants'),
    'C13': dict(mc='MC_Ini', mode='equiv', decls=([2, 3, 11, 17], [1, 2, 3, 8, 11, 17]), maxlines=(2, 2), kind='equiv', dom='eqv', invs='EquivInvariant'),
    'C12': dict(mc='MC_Ini', mode='trip', decls=([11, 8], [1, 2, 8, 9, 11]), maxlines=(2, 2), kind='roundtrip', dom='rt', invs='TripInvariant'),
    'C05': dict(mc='MC_Sources', mode='', decls=([12], [12, 11]), maxlines=(0, 0), kind='sources', dom='src', invs='Precedence'),
}
SESSION_RANDOM = {'quick': (60, 50), 'thorough': (2500, 100)}


class SessionFamily:
    fam = 'session'
    trace = 'Trace_Session'
    props = SESSION_PROPS

    def mc(self, ctx, prop):
        c = SESSION[prop]
        th = ctx.tier == 'thorough'
        d = ctx.specdir('mc')
        cat = os.path.join(ROOT, 'catalog', 'argparse.ndjson')
        ctx.vh('decls', '-trees', cat, '-decls', os.path.join(d, 'catalog_decls.ndjson'))
        decls = c['decls'][1 if th else 0]
        ml = c['maxlines'][1 if th else 0]
        if c['mc'] == 'MC_Ini':
            cfg = ('SPECIFICATION Spec\nCONSTANTS\n  Defects = {}\n  Mode = "%s"\n  DeclIds = {%s}\n  MaxLines = %d\n  Emit = TRUE\n'
                   'INVARIANTS %s EmitScn\nCHECK_DEADLOCK FALSE\n' % (c['mode'], ', '.join(map(str, decls)), ml, c['invs']))
        else:
            cfg = ('SPECIFICATION Spec\nCONSTANTS\n  Defects = {}\n  DeclIds = {%s}\n  Emit = TRUE\nINVARIANTS %s EmitScn\nCHECK_DEADLOCK FALSE\n'
                   % (', '.join(map(str, decls)), c['invs']))
        rc, out = ctx.tlc(d, c['mc'], cfg, workers=NCPU, timeout=3000)
        if not ctx.tlc_ok(out):
            raise Infra('exhaustive model check did not complete cleanly:\n' + ctx.tlc_error_summary(out))
        states, gen = ctx.tlc_counts(out)
        return states, gen, parse_scn(out, ctx), d, dict(module=c['mc'], mode=c['mode'], decls=decls, maxlines=ml)

    def sample(self, line):
        r = json.loads(line)
        calls = []
        for c in r['calls']:
            cc = {'op': c['op']}
            if c['op'] == 'ini':
                cc['text'] = cps2s(c.get('text', []))[:300]
                cc['asDefaults'] = c.get('asDefaults', False)
                if c.get('fromWrite'):
                    cc['fromWrite'] = c['fromWrite']
            if c['op'] == 'args':
                cc['argv'] = [cps2s(t) for t in c.get('argv', [])]
            if c['op'] == 'write':
                cc['iniOpts'] = c.get('iniOpts', [])
            calls.append(cc)
        obs = [{'errKind': o['errKind'], 'line': o['line']} for o in r.get('obs', [])]
        return {'decl': r['decl'], 'popts': r['popts'], 'env': conv(r['env']), 'presets': conv(r.get('presets', [])), 'calls': calls, 'real_outcome_per_call': obs, 'tags': r['tags']}

    def random_part(self, ctx, prop, kind, repeat=50):
        nt, per = SESSION_RANDOM[ctx.tier]
        if kind == 'determinism' and ctx.tier == 'thorough':
            nt, per = 600, 100          # every session is executed `repeat` times
        ctx.vh('gen-session', '-seed', ctx.seed, '-ntrees', nt, '-per', per, '-kind', kind, '-repeat', repeat,
               '-trees', 'r_trees.ndjson', '-decls', 'r_decls.ndjson', '-scen', 'r_scen.ndjson')
        ctx.vh('run', '-trees', 'r_trees.ndjson', '-scen', 'r_scen.ndjson', '-out', 'r_rec.ndjson', '-workers', NCPU)
        rrec = os.path.join(ctx.work, 'r_rec.ndjson')
        bad, stats, rn = ctx.validate('rv', self.trace, rrec, os.path.join(ctx.work, 'r_decls.ndjson'), self.props)
        return bad, stats, rn, open(rrec).read().splitlines(), open(os.path.join(ctx.work, 'r_trees.ndjson')).read().splitlines()

    def config(self, prop):
        return SESSION[prop]

    def run(self, ctx):
        prop = ctx.prop
        c = self.config(prop)
        assumptions = getattr(self, 'assumptions', None) or [
            'the order in which go-flags applies the sections of one file is not fixed by the documentation: an observation is accepted if it equals the specification\'s outcome for some order (C15 judges the dependence itself)',
            'string values are specified over ASCII plus the printable / non-printable samples of Quote.tla; escapes outside Quote.tla are grey (no verdict)',
            'TLC explores the bounded model exhaustively; bounds under coverage.mc_bounds',
        ]
        mc_states, mc_trans, scns, d, mcinfo = self.mc(ctx, prop)
        ctx.log('exhaustive model: %d distinct states, %d scenarios enumerated' % (mc_states, len(scns)))
        bad_all, samples, stats_all, drift, mc_records = [], [], {}, 0, 0
        cat = os.path.join(ROOT, 'catalog', 'argparse.ndjson')
        if scns:
            scen = os.path.join(ctx.work, 'mc_scen.ndjson')
            with open(scen, 'w') as f:
                for i, s in enumerate(scns, 1):
                    s['id'] = i
                    f.write(json.dumps(s) + '\n')
            rec = os.path.join(ctx.work, 'mc_rec.ndjson')
            ctx.vh('run', '-trees', cat, '-scen', scen, '-out', rec, '-workers', NCPU)
            bad, stats, n = ctx.validate('mcv', self.trace, rec, os.path.join(d, 'catalog_decls.ndjson'), self.props)
            mc_records = n
            for k, v in stats.items():
                stats_all[k] = stats_all.get(k, 0) + v
            drift += len(bad['DRIFT'])
            lines = open(rec).read().splitlines()
            trees = open(cat).read().splitlines()
            for i in bad[prop]:
                bad_all.append(('mc', i, lines[i - 1], trees, os.path.join(d, 'catalog_decls.ndjson')))
            samples += [self.sample(lines[k]) for k in (len(lines) // 3, 2 * len(lines) // 3) if lines]
            ctx.log('replayed %d TLC-enumerated scenarios on the real code: %d disagree on %s' % (n, len(bad[prop]), prop))
        bad, stats, rn, rlines, rtrees = self.random_part(ctx, prop, c.get('kind', ''))
        for k, v in stats.items():
            stats_all[k] = stats_all.get(k, 0) + v
        drift += len(bad['DRIFT'])
        for i in bad[prop]:
            bad_all.append(('random', i, rlines[i - 1], rtrees, os.path.join(ctx.work, 'r_decls.ndjson')))
        samples += [self.sample(rlines[k]) for k in (0, len(rlines) // 2) if rlines]
        ctx.log('validated %d recorded random scenarios: %d disagree on %s; stats %s; drift %d' % (rn, len(bad[prop]), prop, stats_all, drift))
        return self.finish(ctx, bad_all, samples, stats_all, drift, mc_states, mc_trans, mc_records, rn, mcinfo, c['dom'], assumptions)

    def finish(self, ctx, bad_all, samples, stats_all, drift, mc_states, mc_trans, mc_records, rn, mcinfo, domkey, assumptions):
        prop = ctx.prop
        viol, known_hits = 0, {}
        for src, i, line, trees, declsfile in bad_all:
            r = json.loads(line)
            kf = self.classify(ctx, r, line, declsfile)
            if kf:
                known_hits.setdefault(kf['name'], [0, kf])[0] += 1
                continue
            viol += 1
            if viol <= 5:
                path = ctx.save_replay('%s%d' % (src, i), line, trees[r['decl'] - 1] if trees and 'decl' in r else None)
                print('VIOLATION property=%s replay=%s' % (prop, path), flush=True)
                print('  ' + json.dumps(self.sample(line), ensure_ascii=False)[:600], flush=True)
        for name, (cnt, kf) in known_hits.items():
            print('KNOWN-FINDING: property=%s %s (%d scenarios of this run)' % (prop, kf['what_fails'], cnt), flush=True)
        cov = {'states': max(mc_states, 1), 'transitions': max(mc_trans, 1), 'traces_validated_against_impl': mc_records + rn,
               'samples': samples[:5], 'exhaustive': False, 'mc_bounds': mcinfo, 'mc_scenarios_replayed_on_impl': mc_records,
               'random_scenarios_recorded_and_validated': rn, 'in_property_domain': stats_all.get(domkey, 0), 'class_counts': stats_all,
               'model_drift_records': drift, 'known_finding_hits': {k: v[0] for k, v in known_hits.items()},
               'rule': 'a scenario is a history of API calls (INI read in normal / as-defaults mode, ParseArgs, INI write, fresh parser) on one declaration with environment and presets; the exhaustive part enumerates the cases of mc_bounds, the random part builds INI texts addressing random declarations in every naming form with noise and single faults; class_counts: ini = INI reads judged, inierr = of which fail, rt = round trips in the domain, src = source histories, eqv = entry/flag pairs, multi = reads whose outcome depends on section order'}
        ctx.evidence(cov, viol, assumptions)
        return 1 if viol else 0

    def classify(self, ctx, r, line, declsfile):
        for kf in ctx.known:
            if kf.get('status') != 'known' or ctx.prop not in kf['properties'] or kf.get('family') != 'session':
                continue
            d = ctx.specdir('kf')
            open(os.path.join(d, 'trace.ndjson'), 'w').write(line + '\n')
            shutil.copy(declsfile, os.path.join(d, 'decls.ndjson'))
            cfg = 'SPECIFICATION Spec\nCONSTANT Defects = {%s}\nINVARIANT JudgeRecord\nCHECK_DEADLOCK FALSE\nPOSTCONDITION Post\n' % ', '.join('"%s"' % x for x in kf['switch'].split('+'))
            rc, out = ctx.tlc(d, self.trace, cfg, workers=1, timeout=600, heap='2g')
            m = re.search(r'<<\s*"VERIF-BAD",\s*"DRIFT",\s*\{([^}]*)\}\s*>>', out)
            if m is not None and m.group(1).strip() == '':
                return kf
        return None

    def replay(self, ctx, path):
        obj = json.load(open(path))
        rec, tree = obj['record'], obj['tree']
        tree['id'] = 1
        rec['decl'] = 1
        rec.pop('obs', None)
        open(os.path.join(ctx.work, 't.ndjson'), 'w').write(json.dumps(tree) + '\n')
        open(os.path.join(ctx.work, 's.ndjson'), 'w').write(json.dumps(rec) + '\n')
        ctx.vh('decls', '-trees', 't.ndjson', '-decls', 'd.ndjson')
        ctx.vh('run', '-trees', 't.ndjson', '-scen', 's.ndjson', '-out', 'r.ndjson', '-workers', 1)
        bad, stats, n = ctx.validate('rp', self.trace, os.path.join(ctx.work, 'r.ndjson'), os.path.join(ctx.work, 'd.ndjson'), self.props)
        line = open(os.path.join(ctx.work, 'r.ndjson')).read().splitlines()[0]
        print(json.dumps(self.sample(line), ensure_ascii=False, indent=1))
        r = json.loads(line)
        for k, o in enumerate(r['obs'], 1):
            print('call', k, 'real:', json.dumps(conv({kk: vv for kk, vv in o.items() if kk not in ('text', 'lines')}), ensure_ascii=False)[:800])
            if o.get('lines'):
                print('   written:', [cps2s(x) for x in o['lines']][:40])
        print('judged bad for:', [p for p in bad if bad[p]])
        if bad[ctx.prop]:
            print('VIOLATION property=%s replay=%s' % (ctx.prop, path))
            return 1
        return 0


class DeterminismFamily(SessionFamily):
    def replay(self, ctx, path):
        # a C15 replay belongs to the family its record came from
        fam = json.load(open(path))['record'].get('fam', 'session')
        target = {'help': 'C16', 'completion': 'C18', 'argparse': 'C01', 'closest': 'C20', 'decl': 'C19'}.get(fam)
        if target is None:
            return SessionFamily.replay(self, ctx, path)
        return PROPS[target].replay(ctx, path)

    def classify(self, ctx, r, line, declsfile):
        if 'calls' not in r:
            return None
        return SessionFamily.classify(self, ctx, r, line, declsfile)

    def sample(self, line):
        r = json.loads(line)
        if 'calls' in r:
            return SessionFamily.sample(self, line)
        return conv({k: v for k, v in r.items() if k not in ('obs', 'obsAlt')})

    """C15: TLC finds the inputs whose outcome depends on the order of a map iteration in the model; the real code is run
    repeatedly on them (and on seeded random sessions) and must give one observation."""

    def run(self, ctx):
        prop = 'C15'
        th = ctx.tier == 'thorough'
        d = ctx.specdir('mc')
        cat = os.path.join(ROOT, 'catalog', 'argparse.ndjson')
        ctx.vh('decls', '-trees', cat, '-decls', os.path.join(d, 'catalog_decls.ndjson'))
        decls = [1, 3, 11] if th else [11]
        cfg = ('SPECIFICATION Spec\nCONSTANTS\n  Defects = {}\n  Mode = "order"\n  DeclIds = {%s}\n  MaxLines = %d\n  Emit = TRUE\n'
               'INVARIANTS EmitScn\nCHECK_DEADLOCK FALSE\n' % (', '.join(map(str, decls)), 4 if th else 3))
        rc, out = ctx.tlc(d, 'MC_Ini', cfg, workers=NCPU, timeout=3000)
        if not ctx.tlc_ok(out):
            raise Infra('exhaustive model check did not complete cleanly:\n' + ctx.tlc_error_summary(out))
        mc_states, mc_trans = ctx.tlc_counts(out)
        scns = parse_scn(out, ctx)
        if len(scns) > (20000 if th else 1500):
            import random
            scns = scns.tolist() if isinstance(scns, ScnList) else scns
            random.Random(ctx.seed).shuffle(scns)
            scns = scns[:(20000 if th else 1500)]
        ctx.log('model: %d files examined, %d order-sensitive ones selected for repeated execution' % (mc_states, len(scns)))
        bad_all, samples, stats_all, drift, mc_records = [], [], {}, 0, 0
        rep = 2000 if th else 200
        if scns:
            scen = os.path.join(ctx.work, 'mc_scen.ndjson')
            with open(scen, 'w') as f:
                for i, s in enumerate(scns, 1):
                    s['id'] = i
                    s['repeat'] = rep
                    f.write(json.dumps(s) + '\n')
            rec = os.path.join(ctx.work, 'mc_rec.ndjson')
            ctx.vh('run', '-trees', cat, '-scen', scen, '-out', rec, '-workers', NCPU)
            bad, stats, n = ctx.validate('mcv', self.trace, rec, os.path.join(d, 'catalog_decls.ndjson'), self.props)
            mc_records = n
            stats_all.update(stats)
            lines = open(rec).read().splitlines()
            trees = open(cat).read().splitlines()
            for i in bad[prop]:
                bad_all.append(('mc', i, lines[i - 1], trees, os.path.join(d, 'catalog_decls.ndjson')))
            samples += [self.sample(lines[k]) for k in (0, len(lines) // 2) if lines]
            ctx.log('ran %d order-sensitive files x %d on the real code: %d gave more than one observation' % (n, rep, len(bad[prop])))
        bad, stats, rn, rlines, rtrees = self.random_part(ctx, prop, 'determinism', repeat=rep // 4)
        for k, v in stats.items():
            stats_all[k] = stats_all.get(k, 0) + v
        for i in bad[prop]:
            bad_all.append(('random', i, rlines[i - 1], rtrees, os.path.join(ctx.work, 'r_decls.ndjson')))
        samples += [self.sample(rlines[k]) for k in (0, len(rlines) // 2) if rlines]
        ctx.log('ran %d random sessions repeatedly: %d gave more than one observation' % (rn, len(bad[prop])))
        # help text, man page, completion lists, argument parsing (values, error messages): repeated on fresh parsers
        others = []
        r2 = max(10, rep // 8)
        nt = 40 if not th else 300
        for name, gen, trace, props in (
                ('help', ['gen-help', '-seed', ctx.seed, '-ntrees', nt, '-per', 10, '-repeat', r2], 'Trace_Help', ['C16', 'C17', 'C15', 'DRIFT']),
                ('completion', ['gen-completion', '-seed', ctx.seed, '-ntrees', nt, '-per', 20, '-repeat', r2], 'Trace_Completion', ['C18', 'C15', 'C09', 'DRIFT']),
                ('argparse', ['gen', '-seed', ctx.seed, '-ntrees', nt, '-per', 20, '-repeat', r2], 'Trace_ArgParse', ARG_PROPS)):
            ctx.vh(*(gen + ['-trees', 'o_trees.ndjson', '-decls', 'o_decls.ndjson', '-scen', 'o_scen.ndjson']))
            ctx.vh('run', '-trees', 'o_trees.ndjson', '-scen', 'o_scen.ndjson', '-out', 'o_rec.ndjson', '-workers', NCPU)
            orec = os.path.join(ctx.work, 'o_rec.ndjson')
            obad, ostats, on = ctx.validate('ov-' + name, trace, orec, os.path.join(ctx.work, 'o_decls.ndjson'), props)
            olines = open(orec).read().splitlines()
            otrees = open(os.path.join(ctx.work, 'o_trees.ndjson')).read().splitlines()
            for i in obad['C15']:
                bad_all.append((name, i, olines[i - 1], otrees, os.path.join(ctx.work, 'o_decls.ndjson')))
            stats_all['rep_' + name] = on
            rn += on
            ctx.log('ran %d %s scenarios x %d: %d gave more than one observation' % (on, name, r2, len(obad['C15'])))
        # setup errors of declarations (duplicate names ...) and command diagnoses (ties in distance ...): the same message every time
        nn = 4000 if not th else 12000
        for name, gen, trace, props in (
                ('decl', ['gen-decl', '-seed', ctx.seed, '-n', nn, '-repeat', r2], 'Trace_Decl', ['C19', 'C15', 'DRIFT']),
                ('closest', ['gen-closest', '-seed', ctx.seed, '-n', nn, '-repeat', r2], 'Trace_Closest', ['C20', 'C15', 'DRIFT'])):
            ctx.vh(*(gen + ['-scen', 'o_scen.ndjson']))
            ctx.vh('run', '-scen', 'o_scen.ndjson', '-out', 'o_rec.ndjson', '-workers', NCPU)
            orec = os.path.join(ctx.work, 'o_rec.ndjson')
            obad, ostats, on = ctx.validate('ov-' + name, trace, orec, os.devnull, props)
            olines = open(orec).read().splitlines()
            for i in obad['C15']:
                bad_all.append((name, i, olines[i - 1], [], os.devnull))
            stats_all['rep_' + name] = on
            rn += on
            ctx.log('ran %d %s scenarios x %d: %d gave more than one observation' % (on, name, r2, len(obad['C15'])))
        assumptions = ['the runtime picks map iteration orders; each scenario is executed repeatedly in one process (%d times for model-selected files) and all observations must coincide; an order dependence that shows with probability p per run is missed with probability (1-p)^runs' % rep,
                       'help / man / completion / error-message determinism is exercised by the checks of C16-C18 and C06 through the same repetition']
        return self.finish(ctx, bad_all, samples, stats_all, 0, mc_states, mc_trans, mc_records, rn,
                           dict(module='MC_Ini', mode='order', decls=decls, repeat=rep), 'rep', assumptions)

    def classify(self, ctx, r, line, declsfile):
        for kf in ctx.known:
            if kf.get('status') == 'known' and ctx.prop in kf['properties'] and kf.get('family') == 'session-order':
                # shape: an INI read whose file has more than one section and whose model outcome is order-sensitive
                if any(c['op'] == 'ini' and cps2s(c.get('text', [])).count('[') >= 1 for c in r['calls']) and 'order-sensitive' in r.get('tags', []) + ['order-sensitive' if 'multi-section' in r.get('tags', []) or 'two-faults' in r.get('tags', []) else '']:
                    return kf
        return None


class CompletionFamily(SessionFamily):
    fam = 'completion'
    trace = 'Trace_Completion'
    props = ['C18', 'C15', 'C09', 'DRIFT']
    assumptions = [
        'valid prefix = the parser itself (ArgParse.tla) consumes the typed words without error; a last typed option that awaits a separate argument is allowed',
        'grey (no verdict): a partial word after the -- terminator or after a plain argument under PassAfterNonOption, unknown options passed through under IgnoreUnknown, a complete short flag (echoed back), options of a hidden group that are not themselves hidden',
        'value completions are specified for the harness\' Completer type (cc); flags.Filename completes from the file system and is not modelled',
    ]

    def config(self, prop):
        return dict(dom='valid')

    def mc(self, ctx, prop):
        th = ctx.tier == 'thorough'
        cat = os.path.join(ROOT, 'catalog', 'argparse.ndjson')
        # (declarations, words, parser-option sets): the thorough tier adds a third word on the smaller declarations
        configs = [([14], 2, ['<<>>', '<<"HelpFlag", "PassDoubleDash">>'])]
        if th:
            configs = [([14], 2, ['<<>>', '<<"HelpFlag", "PassDoubleDash">>', '<<"PassDoubleDash">>']), ([5, 13], 3, ['<<>>', '<<"HelpFlag", "PassDoubleDash">>'])]
        states = gen = 0
        scns, infos, d = ScnList(), [], None
        for k, (decls, mw, popts) in enumerate(configs):
            d = ctx.specdir('mc%d' % k)
            ctx.vh('decls', '-trees', cat, '-decls', os.path.join(d, 'catalog_decls.ndjson'))
            open(os.path.join(d, 'MCrun.tla'), 'w').write('---- MODULE MCrun ----\nEXTENDS MC_Completion\nc_POptSets == {%s}\n====\n' % ', '.join(popts))
            cfg = ('SPECIFICATION Spec\nCONSTANTS\n  Defects = {}\n  DeclIds = {%s}\n  MaxWords = %d\n  POptSets <- c_POptSets\n  Emit = TRUE\n'
                   'INVARIANTS WalkAgreesWithParser OfferedIsAccepted Sorted EmitScn\nCHECK_DEADLOCK FALSE\n' % (', '.join(map(str, decls)), mw))
            rc, out = ctx.tlc(d, 'MCrun', cfg, workers=NCPU, timeout=3000)
            if not ctx.tlc_ok(out):
                raise Infra('exhaustive completion model did not complete cleanly:\n' + ctx.tlc_error_summary(out))
            s1, g1 = ctx.tlc_counts(out)
            states, gen = states + s1, gen + g1
            scns = scns + parse_scn(out, ctx)
            infos.append(dict(decls=decls, maxwords=mw, popts=len(popts), states=s1))
        return states, gen, scns, d, dict(module='MC_Completion', configs=infos)

    def random_part(self, ctx, prop, kind, repeat=1):
        nt, per = (100, 100) if ctx.tier == 'quick' else (800, 150)
        ctx.vh('gen-completion', '-seed', ctx.seed, '-ntrees', nt, '-per', per, '-trees', 'r_trees.ndjson', '-decls', 'r_decls.ndjson', '-scen', 'r_scen.ndjson')
        ctx.vh('run', '-trees', 'r_trees.ndjson', '-scen', 'r_scen.ndjson', '-out', 'r_rec.ndjson', '-workers', NCPU)
        rrec = os.path.join(ctx.work, 'r_rec.ndjson')
        bad, stats, rn = ctx.validate('rv', self.trace, rrec, os.path.join(ctx.work, 'r_decls.ndjson'), self.props)
        return bad, stats, rn, open(rrec).read().splitlines(), open(os.path.join(ctx.work, 'r_trees.ndjson')).read().splitlines()

    def sample(self, line):
        r = json.loads(line)
        return {'decl': r['decl'], 'popts': r['popts'], 'words': [cps2s(w) for w in r['words']],
                'real_items': [cps2s(x) for x in r.get('obs', {}).get('items', [])], 'parser_says_to_each_offered_name': r.get('obs', {}).get('accept', [])}

    def run(self, ctx):
        self.kindless = True
        return SessionFamily.run(self, ctx)

    def replay(self, ctx, path):
        obj = json.load(open(path))
        rec, tree = obj['record'], obj['tree']
        tree['id'] = 1
        rec['decl'] = 1
        rec.pop('obs', None)
        open(os.path.join(ctx.work, 't.ndjson'), 'w').write(json.dumps(tree) + '\n')
        open(os.path.join(ctx.work, 's.ndjson'), 'w').write(json.dumps(rec) + '\n')
        ctx.vh('decls', '-trees', 't.ndjson', '-decls', 'd.ndjson')
        ctx.vh('run', '-trees', 't.ndjson', '-scen', 's.ndjson', '-out', 'r.ndjson', '-workers', 1)
        bad, stats, n = ctx.validate('rp', self.trace, os.path.join(ctx.work, 'r.ndjson'), os.path.join(ctx.work, 'd.ndjson'), self.props)
        print(json.dumps(self.sample(open(os.path.join(ctx.work, 'r.ndjson')).read().splitlines()[0]), ensure_ascii=False, indent=1))
        print('judged bad for:', [p for p in bad if bad[p]])
        if bad[ctx.prop]:
            print('VIOLATION property=%s replay=%s' % (ctx.prop, path))
            return 1
        return 0


class HelpFamily(SessionFamily):
    fam = 'help'
    trace = 'Trace_Help'
    props = ['C16', 'C17', 'C15', 'C04', 'DRIFT']
    assumptions = [
        'the verdict predicates (LayoutOK, ContentOK, ManOK of HelpProps.tla) are evaluated on the real text; the specification supplies the visible items, their texts and the description column',
        'the man page is judged on presence of every visible option and command by name and absence of everything hidden or masked (it never prints choices, positional arguments or the env key next to a default)',
        'a visible group nested in a hidden group is shown by the code and accepted; the blank line the wrapper emits after a hard break is accepted',
        'terminal widths are set on a pty attached to fd 0 (TIOCSWINSZ) and read back',
    ]

    def config(self, prop):
        return dict(dom='help')

    def mc(self, ctx, prop):
        th = ctx.tier == 'thorough'
        d = ctx.specdir('mc')
        cat = os.path.join(ROOT, 'catalog', 'argparse.ndjson')
        ctx.vh('decls', '-trees', cat, '-decls', os.path.join(d, 'catalog_decls.ndjson'))
        decls = [15, 16, 19, 18, 9, 3, 12] if th else [15, 16, 19, 18]
        mw = 300 if th else 120
        cfg = ('SPECIFICATION MSpec\nCONSTANTS\n  Defects = {}\n  DeclIds = {%s}\n  MaxWidth = %d\n  Emit = TRUE\nINVARIANTS Lay MEmit\nCHECK_DEADLOCK FALSE\n'
               % (', '.join(map(str, decls)), mw))
        rc, out = ctx.tlc(d, 'MC_Help', cfg, workers=NCPU, timeout=3000)
        if not ctx.tlc_ok(out):
            raise Infra('exhaustive help model did not complete cleanly:\n' + ctx.tlc_error_summary(out))
        states, gen = ctx.tlc_counts(out)
        scns = parse_scn(out, ctx)
        # every enumerated case is replayed as built-in help, inside ErrHelp, and (one width per chain) as man page
        extra = []
        for sc in scns:
            if 'HelpFlag' in sc['popts'] and sc['width'] % 7 == 0:
                e = dict(sc); e['kind'] = 'errhelp'; extra.append(e)
            if sc['width'] == 80:
                e = dict(sc); e['kind'] = 'man'; extra.append(e)
            if sc['width'] % 5 == 1:
                e = dict(sc); e['kind'] = 'rehelp'; extra.append(e)
        # the same parser first parsed a longer chain: every pair (chain, proper extension of it) of one declaration, at two widths
        scl = scns.tolist() if isinstance(scns, ScnList) else scns
        chains = {}
        for sc in scl:
            if sc['width'] == 80:
                chains.setdefault((sc['decl'], tuple(sc['popts'])), []).append(sc['words'])
        for (decl, popts), ws in chains.items():
            for a in ws:
                for b in ws:
                    if len(b) > len(a) and b[:len(a)] == a:
                        for w in (80, 30):
                            extra.append({'fam': 'help', 'decl': decl, 'popts': list(popts), 'words': a, 'preWords': b, 'width': w, 'kind': 'help', 'repeat': 1, 'tags': ['mc', 'pre']})
        return states, gen, scl + extra, d, dict(module='MC_Help', decls=decls, widths='0..%d' % mw)

    def random_part(self, ctx, prop, kind, repeat=1):
        nt, per = (150, 30) if ctx.tier == 'quick' else (4000, 40)
        ctx.vh('gen-help', '-seed', ctx.seed, '-ntrees', nt, '-per', per, '-repeat', repeat, '-trees', 'r_trees.ndjson', '-decls', 'r_decls.ndjson', '-scen', 'r_scen.ndjson')
        ctx.vh('run', '-trees', 'r_trees.ndjson', '-scen', 'r_scen.ndjson', '-out', 'r_rec.ndjson', '-workers', NCPU)
        rrec = os.path.join(ctx.work, 'r_rec.ndjson')
        bad, stats, rn = ctx.validate('rv', self.trace, rrec, os.path.join(ctx.work, 'r_decls.ndjson'), self.props)
        return bad, stats, rn, open(rrec).read().splitlines(), open(os.path.join(ctx.work, 'r_trees.ndjson')).read().splitlines()

    def sample(self, line):
        r = json.loads(line)
        return {'decl': r['decl'], 'popts': r['popts'], 'chain_words': [cps2s(w) for w in r['words']], 'width': r['width'], 'kind': r['kind'],
                'real_text_first_lines': [cps2s(x) for x in r.get('obs', {}).get('lines', [])[:12]], 'panic': r.get('obs', {}).get('panic')}

    def replay(self, ctx, path):
        obj = json.load(open(path))
        rec, tree = obj['record'], obj['tree']
        tree['id'] = 1
        rec['decl'] = 1
        rec.pop('obs', None)
        open(os.path.join(ctx.work, 't.ndjson'), 'w').write(json.dumps(tree) + '\n')
        open(os.path.join(ctx.work, 's.ndjson'), 'w').write(json.dumps(rec) + '\n')
        ctx.vh('decls', '-trees', 't.ndjson', '-decls', 'd.ndjson')
        ctx.vh('run', '-trees', 't.ndjson', '-scen', 's.ndjson', '-out', 'r.ndjson', '-workers', 1)
        bad, stats, n = ctx.validate('rp', self.trace, os.path.join(ctx.work, 'r.ndjson'), os.path.join(ctx.work, 'd.ndjson'), self.props)
        r = json.loads(open(os.path.join(ctx.work, 'r.ndjson')).read().splitlines()[0])
        print('words', [cps2s(w) for w in r['words']], 'width', r['width'], 'kind', r['kind'], 'panic', r['obs']['panic'], cps2s(r['obs'].get('panicMsg', [])))
        print('\n'.join(cps2s(x) for x in r['obs']['lines']))
        print('judged bad for:', [p for p in bad if bad[p]])
        if bad[ctx.prop]:
            print('VIOLATION property=%s replay=%s' % (ctx.prop, path))
            return 1
        return 0


class DeclFamily(SimpleFamily):
    fam = 'decl'
    mc_module = 'MC_Tag'
    trace_module = 'Trace_Decl'
    props = ['C19', 'C15', 'DRIFT']
    domkeys = ['ok', 'errtag', 'errdup', 'errshort', 'errbool']
    rule = ('a scenario is a declaration given as raw struct tag texts (option fields of several types, optionally a nested group with namespace, a command, a positional struct); '
            'exhaustive part: every string up to mc_bounds.maxlen over {a : " \\ blank LF e-acute} as a tag and every value body up to mc_bounds.maxbody as a Go string literal; '
            'random part: well-formed tags with escapes, repeated keys, non-ASCII text, marks in every truthy / falsy spelling, collisions directly and through namespaces, '
            'short names that are too long, defaults on boolean flags, one malformed tag at a random position; class counts: ok = declarations read back and compared attribute by attribute, err* = setup errors expected')
    assumptions = ['escapes outside Quote.tla (octal, \\U, \\x >= 80) are grey', 'an untagged struct field (flattened by the library) and half-numeric positional counts are grey',
                   'hidden on groups and commands is non-emptiness of the tag, as the code reads it']

    def mc_cfg(self, ctx):
        th = ctx.tier == 'thorough'
        ml, mb = (7, 5) if th else (5, 4)
        cfg = ('SPECIFICATION Spec\nCONSTANTS\n  Defects = {}\n  MaxLen = %d\n  MaxBody = %d\n  Emit = TRUE\nINVARIANTS ScannerIsGrammar BodyDecoded EmitScn\nCHECK_DEADLOCK FALSE\n' % (ml, mb))
        return cfg, dict(maxlen=ml, maxbody=mb), NCPU

    def gen_args(self, ctx):
        n = 600000 if ctx.tier == 'thorough' else 20000
        return ['gen-decl', '-seed', ctx.seed, '-n', n, '-scen', 'r_scen.ndjson']


ARGFAM = ArgParseFamily()
PROPS = {p: ARGFAM for p in ['C01', 'C02', 'C03', 'C04', 'C06', 'C07', 'C08', 'C09', 'C10', 'C11']}
PROPS['C20'] = ClosestFamily()
PROPS['C19'] = DeclFamily()
SESSFAM = SessionFamily()
for _p in ['C05', 'C12', 'C13', 'C14']:
    PROPS[_p] = SESSFAM
PROPS['C15'] = DeterminismFamily()
PROPS['C18'] = CompletionFamily()
HELPFAM = HelpFamily()
PROPS['C16'] = HELPFAM
PROPS['C17'] = HELPFAM
