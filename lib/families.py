"""Per-family pipelines and per-property bounds."""
import json, os, re, shutil, subprocess, sys, time
from vlib import *

# ---------------------------------------------------------------------------------------------
# Argument-parsing family (ArgParse.tla): C01 C02 C03 C04 C06 C07 C08 C09 C10
# ---------------------------------------------------------------------------------------------

PASS3 = ['<<>>', '<<"PassDoubleDash">>', '<<"IgnoreUnknown">>', '<<"PassAfterNonOption">>',
         '<<"PassDoubleDash", "IgnoreUnknown">>', '<<"PassDoubleDash", "PassAfterNonOption">>',
         '<<"IgnoreUnknown", "PassAfterNonOption">>', '<<"PassDoubleDash", "IgnoreUnknown", "PassAfterNonOption">>']
DEFAULTISH = ['<<>>', '<<"PassDoubleDash">>', '<<"HelpFlag", "PassDoubleDash", "PrintErrors">>', '<<"IgnoreUnknown", "PassAfterNonOption">>']

ALL_INVS = ['Deterministic', 'Terminates', 'Typed', 'ConservationStep', 'Conservation', 'ChainFromWords', 'ScopeAgrees',
            'OccInScope', 'UnknownNeverSilent', 'ExecSafety', 'RequiredEnforced', 'ValuesDenote', 'UntouchedWithoutOccurrence']

# exhaustive-model bounds per property: quick / thorough
ARG_MC = {
    'C01': dict(decls=[1, 2, 9], policy=['opts', 'clusters'], popts=['<<>>', '<<"PassDoubleDash">>'], handlers=['none'],
                maxlen=(2, 3), thorough_decls=[1, 2, 8, 9, 6]),
    'C03': dict(decls=[4, 5], policy=['opts', 'cmds', 'odd', 'unknown'], popts=PASS3, handlers=['none'], maxlen=(3, 4), thorough_decls=[4, 5, 3]),
    'C04': dict(decls=[1, 3, 8], policy=['opts', 'cmds', 'odd', 'unknown', 'help'], popts=DEFAULTISH + ['<<"HelpFlag", "PrintErrors">>'],
                handlers=['none', 'error'], maxlen=(2, 3), thorough_decls=[1, 3, 5, 7, 8, 9]),
    'C06': dict(decls=[7], policy=['opts', 'cmds', 'clusters'], popts=['<<>>', '<<"PassDoubleDash">>'], handlers=['none'], maxlen=(3, 5), thorough_decls=[7, 3]),
    'C07': dict(decls=[2, 3, 10], policy=['opts', 'cmds', 'unknown', 'near'], popts=['<<>>', '<<"IgnoreUnknown">>'],
                handlers=['none', 'identity', 'dropnext', 'inject', 'error'], maxlen=(2, 3), thorough_decls=[2, 3, 10]),
    'C08': dict(decls=[3, 5, 10], policy=['opts', 'cmds', 'odd'], popts=['<<>>', '<<"PassDoubleDash">>'], handlers=['none'], maxlen=(3, 4), thorough_decls=[3, 5, 10]),
    'C09': dict(decls=[3, 5, 7], policy=['opts', 'cmds', 'unknown', 'help'], popts=['<<>>', '<<"HelpFlag">>', '<<"HelpFlag", "PrintErrors", "PassDoubleDash">>'],
                handlers=['none'], maxlen=(3, 4), thorough_decls=[3, 5, 7, 10]),
    'C10': dict(decls=[4, 5, 7], policy=['opts', 'cmds', 'odd'], popts=PASS3, handlers=['none'], maxlen=(3, 4), thorough_decls=[4, 5, 7]),
}
# random direction: (trees, scenarios per tree) quick / thorough
ARG_RANDOM = {'quick': (120, 60), 'thorough': (1500, 80)}

ARG_DOMKEY = {'C01': 'd01', 'C02': 'd02', 'C03': 'd03', 'C04': 'd04', 'C06': 'd06', 'C07': 'd07', 'C08': 'd08', 'C09': 'd09', 'C10': 'd10'}
ARG_PROPS = ['C01', 'C02', 'C03', 'C04', 'C06', 'C07', 'C08', 'C09', 'C10', 'DRIFT']


class ArgParseFamily:
    name = 'argparse'

    def mc(self, ctx, prop):
        """exhaustive run of MC_ArgParse with the property's bounds; returns (states, transitions, scenario lines)"""
        b = ARG_MC[prop]
        thorough = ctx.tier == 'thorough'
        d = ctx.specdir('mc')
        cat = os.path.join(ROOT, 'catalog', 'argparse.ndjson')
        ctx.vh('decls', '-trees', cat, '-decls', os.path.join(d, 'catalog_decls.ndjson'))
        decls = b['thorough_decls'] if thorough else b['decls']
        maxlen = b['maxlen'][1 if thorough else 0]
        open(os.path.join(d, 'MCrun.tla'), 'w').write(
            '---- MODULE MCrun ----\nEXTENDS MC_ArgParse\nc_POptSets == {%s}\n====\n' % ', '.join(b['popts']))
        cfg = ('SPECIFICATION Spec\nCONSTANTS\n  Defects = {}\n  DeclIds = {%s}\n  MaxLen = %d\n  POptSets <- c_POptSets\n'
               '  Handlers = {%s}\n  Policy = {%s}\n  Emit = TRUE\nINVARIANTS\n  %s EmitScenario\nPROPERTIES\n  ExecOnlyAtDispatch\nCHECK_DEADLOCK FALSE\n'
               % (', '.join(map(str, decls)), maxlen, ', '.join('"%s"' % h for h in b['handlers']),
                  ', '.join('"%s"' % p for p in b['policy']), ' '.join(ALL_INVS)))
        rc, out = ctx.tlc(d, 'MCrun', cfg, workers=NCPU, timeout=3000)
        if not ctx.tlc_ok(out):
            # an invariant of the specification itself failed: the model is wrong (or a defect switch is on); not a verdict about the code
            raise Infra('exhaustive model check did not complete cleanly:\n' + ctx.tlc_error_summary(out))
        states, gen = ctx.tlc_counts(out)
        scns = []
        for m in re.finditer(r'^"SCN (.*)"$', out, re.M):
            scns.append(json.loads(m.group(1).replace('\\"', '"').replace('\\\\', '\\')))
        return states, gen, scns, d, dict(decls=decls, maxlen=maxlen, popts=len(b['popts']), handlers=b['handlers'], policy=b['policy'])

    def mc_spell(self, ctx):
        """C02: exhaustive pair model MC_Spell"""
        thorough = ctx.tier == 'thorough'
        d = ctx.specdir('mc')
        cat = os.path.join(ROOT, 'catalog', 'argparse.ndjson')
        ctx.vh('decls', '-trees', cat, '-decls', os.path.join(d, 'catalog_decls.ndjson'))
        decls = [1, 2, 3, 6, 8, 9] if thorough else [1, 9]
        ctxlen = 1 if not thorough else 1
        popts = ['<<>>', '<<"PassDoubleDash">>'] + (['<<"IgnoreUnknown", "PassAfterNonOption">>'] if thorough else [])
        open(os.path.join(d, 'MCrun.tla'), 'w').write('---- MODULE MCrun ----\nEXTENDS MC_Spell\nc_POptSets == {%s}\n====\n' % ', '.join(popts))
        cfg = ('SPECIFICATION Spec\nCONSTANTS\n  Defects = {}\n  DeclIds = {%s}\n  CtxLen = %d\n  POptSets <- c_POptSets\n  Emit = TRUE\n'
               'INVARIANTS PairAgree EmitPair\nCHECK_DEADLOCK FALSE\n' % (', '.join(map(str, decls)), ctxlen))
        rc, out = ctx.tlc(d, 'MCrun', cfg, workers=NCPU, timeout=3000)
        if not ctx.tlc_ok(out):
            raise Infra('exhaustive pair model did not complete cleanly:\n' + ctx.tlc_error_summary(out))
        states, gen = ctx.tlc_counts(out)
        scns = []
        for m in re.finditer(r'^"SCN (.*)"$', out, re.M):
            scns.append(json.loads(m.group(1).replace('\\"', '"').replace('\\\\', '\\')))
        return states, gen, scns, d, dict(decls=decls, ctxlen=ctxlen, popts=len(popts), pairs=len(scns))

    def run(self, ctx):
        prop = ctx.prop
        assumptions = [
            'TLC explores the bounded specification exhaustively; bounds are those listed under coverage.mc_bounds',
            'conversion of floats and durations is specified on the finite literal table spec/FTab.tla only (Go standard library is trusted for rounding)',
            'scenarios where the specification is silent (grey: optional argument without optional-value, escapes outside Quote.tla) produce no verdict',
        ]
        # 1+2: exhaustive model + replay of every enumerated scenario on the real code
        mcinfo = None
        mc_states = mc_trans = 0
        mc_records = 0
        bad_all = []           # (source, index, line)
        samples = []
        domcount = 0
        drift = 0
        if prop in ARG_MC or prop == 'C02':
            if prop == 'C02':
                mc_states, mc_trans, scns, d, mcinfo = self.mc_spell(ctx)
                if ctx.tier == 'quick' and len(scns) > 120000:      # replay a seeded sample of the enumerated pairs in the quick tier
                    import random
                    random.Random(ctx.seed).shuffle(scns)
                    scns = scns[:120000]
            else:
                mc_states, mc_trans, scns, d, mcinfo = self.mc(ctx, prop)
            ctx.log('exhaustive model: %d distinct states, %d scenarios enumerated' % (mc_states, len(scns)))
            scen = os.path.join(ctx.work, 'mc_scen.ndjson')
            with open(scen, 'w') as f:
                for i, s in enumerate(scns, 1):
                    s.update({'fam': 'argparse', 'id': i, 'tags': ['mc']})
                    f.write(json.dumps(s) + '\n')
            cat = os.path.join(ROOT, 'catalog', 'argparse.ndjson')
            rec = os.path.join(ctx.work, 'mc_rec.ndjson')
            ctx.vh('run', '-trees', cat, '-scen', scen, '-out', rec, '-workers', NCPU)
            bad, stats, n = ctx.validate('mcv', 'Trace_ArgParse', rec, os.path.join(d, 'catalog_decls.ndjson'), ARG_PROPS)
            mc_records = n
            domcount += stats.get(ARG_DOMKEY[prop], 0)
            drift += len(bad['DRIFT'])
            lines = open(rec).read().splitlines()
            trees = open(cat).read().splitlines()
            for i in bad[prop]:
                bad_all.append(('mc', i, lines[i - 1], trees))
            samples += [self.sample(lines[k]) for k in (0, len(lines) // 2, len(lines) - 1) if lines]
            ctx.log('replayed %d TLC-enumerated scenarios on the real code: %d disagree on %s' % (n, len(bad[prop]), prop))
        # 3: random direction
        nt, per = ARG_RANDOM[ctx.tier]
        ctx.vh('gen', '-seed', ctx.seed, '-ntrees', nt, '-per', per, '-trees', 'r_trees.ndjson', '-decls', 'r_decls.ndjson', '-scen', 'r_scen.ndjson')
        ctx.vh('run', '-trees', 'r_trees.ndjson', '-scen', 'r_scen.ndjson', '-out', 'r_rec.ndjson', '-workers', NCPU)
        rrec = os.path.join(ctx.work, 'r_rec.ndjson')
        bad, stats, rn = ctx.validate('rv', 'Trace_ArgParse', rrec, os.path.join(ctx.work, 'r_decls.ndjson'), ARG_PROPS)
        domcount += stats.get(ARG_DOMKEY[prop], 0)
        drift += len(bad['DRIFT'])
        rlines = open(rrec).read().splitlines()
        rtrees = open(os.path.join(ctx.work, 'r_trees.ndjson')).read().splitlines()
        for i in bad[prop]:
            bad_all.append(('random', i, rlines[i - 1], rtrees))
        samples += [self.sample(rlines[k]) for k in (0, len(rlines) // 3, 2 * len(rlines) // 3) if rlines]
        ctx.log('validated %d recorded random scenarios: %d disagree on %s; %d in the property\'s domain; model drift %d'
                % (rn, len(bad[prop]), prop, domcount, drift))
        # 4: classify
        viol = 0
        known_hits = {}
        for src, i, line, trees in bad_all:
            r = json.loads(line)
            kf = self.classify(ctx, r, line, trees)
            if kf:
                known_hits.setdefault(kf['name'], [0, kf])[0] += 1
                continue
            viol += 1
            if viol <= 5:
                path = ctx.save_replay('%s%d' % (src, i), line, trees[r['decl'] - 1])
                print('VIOLATION property=%s replay=%s' % (prop, path), flush=True)
                print('  argv=%s popts=%s obs.errType=%s' % ([cps2s(t) for t in r['argv']], r['popts'], r['obs']['errType']), flush=True)
        for name, (cnt, kf) in known_hits.items():
            print('KNOWN-FINDING: property=%s %s (%d scenarios of this run)' % (prop, kf['what_fails'], cnt), flush=True)
        cov = {
            'states': max(mc_states, 1), 'transitions': max(mc_trans, 1),
            'traces_validated_against_impl': mc_records + rn,
            'samples': samples[:6],
            'exhaustive': False,
            'mc_bounds': mcinfo, 'mc_scenarios_replayed_on_impl': mc_records, 'random_scenarios_recorded_and_validated': rn,
            'in_property_domain': domcount, 'grey_no_verdict': stats.get('grey', 0), 'model_drift_records': drift,
            'known_finding_hits': {k: v[0] for k, v in known_hits.items()},
            'rule': 'a scenario is (declaration, parser options, handler, environment, argv); the exhaustive part enumerates all vectors up to mc_bounds.maxlen over the alphabet the specification derives from each catalogue declaration; the random part builds validity-biased vectors over random declarations; in_property_domain counts scenarios that meet the property\'s antecedent',
        }
        ctx.evidence(cov, viol, assumptions)
        return 1 if viol else 0

    def sample(self, line):
        r = json.loads(line)
        return {'decl': r['decl'], 'popts': r['popts'], 'handler': r['handler'], 'argv': [cps2s(t) for t in r['argv']],
                'real_outcome': {'errType': r['obs']['errType'], 'retargs': [cps2s(t) for t in r['obs']['retargs']], 'chain': r['obs']['chain']}}

    def classify(self, ctx, r, line, trees):
        """A disagreement is attributed to a listed finding only if its input has the listed shape and the
        specification with that finding's switch on reproduces the real outcome exactly."""
        for kf in ctx.known:
            if kf.get('status') != 'known' or ctx.prop not in kf['properties'] or kf.get('family') != 'argparse':
                continue
            # shape predicates are evaluated by the specification itself (the switch only changes the one decision)
            d = ctx.specdir('kf')
            open(os.path.join(d, 'trace.ndjson'), 'w').write(line + '\n')
            with open(os.path.join(d, 'decls.ndjson'), 'w') as f:
                # re-flatten only the needed tree is not possible without vh; reuse the run's file
                pass
            src = os.path.join(ctx.work, 'r_decls.ndjson') if 'mc' not in r.get('tags', []) else os.path.join(ctx.work, 'mc', 'catalog_decls.ndjson')
            shutil.copy(src, os.path.join(d, 'decls.ndjson'))
            cfg = 'SPECIFICATION Spec\nCONSTANT Defects = {"%s"}\nCHECK_DEADLOCK FALSE\nPOSTCONDITION Post\n' % kf['switch']
            rc, out = ctx.tlc(d, 'Trace_ArgParse', cfg, workers=1, timeout=600, heap='2g')
            m = re.search(r'<<\s*"VERIF-BAD",\s*"DRIFT",\s*\{([^}]*)\}\s*>>', out)
            if m is not None and m.group(1).strip() == '':
                return kf
        return None

    def replay(self, ctx, path):
        obj = json.load(open(path))
        rec = obj['record']
        tree = obj['tree']
        tree['id'] = 1
        rec['decl'] = 1
        rec.pop('obs', None)
        rec.pop('obsAlt', None)
        open(os.path.join(ctx.work, 't.ndjson'), 'w').write(json.dumps(tree) + '\n')
        open(os.path.join(ctx.work, 's.ndjson'), 'w').write(json.dumps(rec) + '\n')
        ctx.vh('decls', '-trees', 't.ndjson', '-decls', 'd.ndjson')
        ctx.vh('run', '-trees', 't.ndjson', '-scen', 's.ndjson', '-out', 'r.ndjson', '-workers', 1)
        bad, stats, n = ctx.validate('rp', 'Trace_ArgParse', os.path.join(ctx.work, 'r.ndjson'), os.path.join(ctx.work, 'd.ndjson'), ARG_PROPS)
        r = json.loads(open(os.path.join(ctx.work, 'r.ndjson')).read())
        print('argv   :', [cps2s(t) for t in r['argv']])
        print('real   :', json.dumps(conv({k: v for k, v in r['obs'].items() if k not in ('errMsg',)}), ensure_ascii=False))
        print('message:', cps2s(r['obs'].get('errMsg', [])))
        print('judged bad for:', [p for p in bad if bad[p]])
        if bad[ctx.prop]:
            print('VIOLATION property=%s replay=%s' % (ctx.prop, path))
            return 1
        return 0


ARGFAM = ArgParseFamily()
PROPS = {p: ARGFAM for p in ['C01', 'C02', 'C03', 'C04', 'C06', 'C07', 'C08', 'C09', 'C10']}
