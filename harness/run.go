package main

// Scenario runner for the argument-parsing family: builds a fresh parser,
// sets the environment, runs the real ParseArgs and records everything
// observable.

import (
	"fmt"
	"os"
	"reflect"
	"runtime/debug"
	"sort"
	"strconv"
	"strings"
	"time"

	flags "github.com/jessevdk/go-flags"
)

type EnvKV struct {
	K S `json:"k"`
	V S `json:"v"`
}

// Scenario is one input of the argparse family (also the record TLC reads).
type Scenario struct {
	Fam        string   `json:"fam"`
	ID         int      `json:"id"`
	Decl       int      `json:"decl"` // index into the declaration file (1-based)
	POpts      []string `json:"popts"`
	Handler    string   `json:"handler"` // none identity dropnext inject error
	CmdHandler bool     `json:"cmdHandler"`
	ExecErr    bool     `json:"execErr"`
	Env        []EnvKV  `json:"env"`
	Argv       []S      `json:"argv"`
	Completion S        `json:"completion"` // value of GO_FLAGS_COMPLETION ("" = unset)
	HasPrelude bool     `json:"hasPrelude"` // a first ParseArgs(prelude) runs on the same parser before the judged call
	LateGroup  bool     `json:"lateGroup"`  // with a prelude: the top-level groups marked late are added to the parser (AddGroup) between the two calls
	RenameOpt  int      `json:"renameOpt"`  // with a prelude: the LongName field of this option (flat index, 0 = none) is assigned RenameLong between the two calls
	RenameLong S        `json:"renameLong"`
	Prelude    []S      `json:"prelude"`
	Repeat     int      `json:"repeat"`        // C15: run the scenario this many times on fresh parsers; all observations must coincide
	Tags       []string `json:"tags"`          // what the generator intended (evidence / sampling only)
	Alt        []S      `json:"alt,omitempty"` // C02: the same vector with one occurrence respelled
	AltInfo    *AltInfo `json:"altInfo,omitempty"`
	Obs        *Obs     `json:"obs,omitempty"`
	ObsAlt     *Obs     `json:"obsAlt,omitempty"`
}

type AltInfo struct {
	Opt    int    `json:"opt"`    // option respelled (flat index)
	Pos    int    `json:"pos"`    // position in argv (1-based) of the first token of the occurrence
	From   string `json:"from"`   // spelling used in argv
	To     string `json:"to"`     // spelling used in alt
	Value  S      `json:"value"`  // the value V (after the quoting layer)
	Quoted bool   `json:"quoted"` // V written as a Go string literal in one of the two
	Has2   bool   `json:"has2"`   // the value is written differently in alt (raw in one vector, quoted in the other)
	Value2 S      `json:"value2"` // the value as written in alt when has2
}

type Obs struct {
	Panic      bool    `json:"panic"`
	PanicMsg   S       `json:"panicMsg"`
	Timeout    bool    `json:"timeout"`
	Ok         bool    `json:"ok"`
	ErrType    string  `json:"errType"`
	ErrOpt     S       `json:"errOpt"`
	ErrNames   []S     `json:"errNames"`
	ErrWord    S       `json:"errWord"`
	ErrList    []S     `json:"errList"` // ErrInvalidChoice: the allowed values as listed in the message
	ErrMsg     S       `json:"errMsg"`
	Values     [][]any `json:"values"`
	IsSet      []bool  `json:"isSet"`
	IsSetDef   []bool  `json:"isSetDef"` // Option.IsSetDefault per option
	Pos        [][][]S `json:"pos"`
	Retargs    []S     `json:"retargs"`
	Chain      []int   `json:"chain"`
	Events     []event `json:"events"`
	Stdout     int     `json:"stdout"` // 0 nothing, 1 exactly the error text + newline, 2 anything else
	Stderr     int     `json:"stderr"`
	Untouched  bool    `json:"untouched"`
	ArgvIntact bool    `json:"argvIntact"` // the slice handed to ParseArgs still holds the same tokens after the call
	SetupErr   string  `json:"setupErr"`
	Distinct   int     `json:"distinct"` // number of distinct observations over the repetitions (1 when not repeated)
}

func poptsOf(names []string) flags.Options {
	var o flags.Options
	for _, n := range names {
		switch n {
		case "HelpFlag":
			o |= flags.HelpFlag
		case "PassDoubleDash":
			o |= flags.PassDoubleDash
		case "IgnoreUnknown":
			o |= flags.IgnoreUnknown
		case "PrintErrors":
			o |= flags.PrintErrors
		case "PassAfterNonOption":
			o |= flags.PassAfterNonOption
		}
	}
	return o
}

var errTypeNames = map[flags.ErrorType]string{
	flags.ErrUnknown: "ErrUnknown", flags.ErrExpectedArgument: "ErrExpectedArgument", flags.ErrUnknownFlag: "ErrUnknownFlag",
	flags.ErrUnknownGroup: "ErrUnknownGroup", flags.ErrMarshal: "ErrMarshal", flags.ErrHelp: "ErrHelp",
	flags.ErrNoArgumentForBool: "ErrNoArgumentForBool", flags.ErrRequired: "ErrRequired", flags.ErrShortNameTooLong: "ErrShortNameTooLong",
	flags.ErrDuplicatedFlag: "ErrDuplicatedFlag", flags.ErrTag: "ErrTag", flags.ErrCommandRequired: "ErrCommandRequired",
	flags.ErrUnknownCommand: "ErrUnknownCommand", flags.ErrInvalidChoice: "ErrInvalidChoice", flags.ErrInvalidTag: "ErrInvalidTag",
}

// atomText is the canonical text of a scalar value.
func atomText(v reflect.Value) string {
	if v.Type() == typeByName["duration"] {
		return time.Duration(v.Int()).String()
	}
	switch v.Kind() {
	case reflect.String:
		return v.String()
	case reflect.Bool:
		if v.Bool() {
			return "true"
		}
		return "false"
	case reflect.Int, reflect.Int8, reflect.Int16, reflect.Int32, reflect.Int64:
		return strconv.FormatInt(v.Int(), 10)
	case reflect.Uint, reflect.Uint8, reflect.Uint16, reflect.Uint32, reflect.Uint64:
		return strconv.FormatUint(v.Uint(), 10)
	case reflect.Float32, reflect.Float64:
		return strconv.FormatFloat(v.Float(), 'g', -1, v.Type().Bits())
	case reflect.Struct:
		if v.Type() == typeByName["um"] {
			return v.Interface().(UM).V
		}
	}
	return fmt.Sprint(v.Interface())
}

func obsValue(o *OptNode, f reflect.Value) []any {
	out := []any{}
	switch o.Kind {
	case "func0", "func1":
	case "flag", "scalar":
		out = append(out, toS(atomText(f)))
	case "ptrflag", "ptr":
		if !f.IsNil() {
			out = append(out, toS(atomText(f.Elem())))
		}
	case "counter", "slice":
		for i := 0; i < f.Len(); i++ {
			out = append(out, toS(atomText(f.Index(i))))
		}
	case "sliceptr":
		for i := 0; i < f.Len(); i++ {
			if f.Index(i).IsNil() {
				out = append(out, toS("<nil>"))
			} else {
				out = append(out, toS(atomText(f.Index(i).Elem())))
			}
		}
	case "map":
		keys := f.MapKeys()
		sort.Slice(keys, func(i, j int) bool { return atomText(keys[i]) < atomText(keys[j]) })
		for _, k := range keys {
			out = append(out, []S{toS(atomText(k)), toS(atomText(f.MapIndex(k)))})
		}
	}
	return out
}

func between(msg, open, close string) (string, bool) {
	i := strings.Index(msg, open)
	if i < 0 {
		return "", false
	}
	rest := msg[i+len(open):]
	j := strings.Index(rest, close)
	if j < 0 {
		return "", false
	}
	return rest[:j], true
}

// classifyErr projects an error onto type, the option it names, the names it lists, the word it quotes.
func classifyErr(err error, o *Obs) {
	o.ErrNames = []S{}
	o.ErrList = []S{}
	if err == nil {
		o.ErrType = "none"
		return
	}
	o.ErrMsg = toS(err.Error())
	switch err {
	case errExec:
		o.ErrType = "foreign:exec"
		return
	case errHandler:
		o.ErrType = "foreign:handler"
		return
	}
	fe, ok := err.(*flags.Error)
	if !ok {
		o.ErrType = "foreign"
		return
	}
	o.ErrType = errTypeNames[fe.Type]
	msg := fe.Message
	switch fe.Type {
	case flags.ErrUnknownFlag:
		const pre = "unknown flag `"
		if strings.HasPrefix(msg, pre) && strings.HasSuffix(msg, "'") {
			o.ErrWord = toS(msg[len(pre) : len(msg)-1])
		} else if i, j := strings.Index(msg, "`"), strings.LastIndex(msg, "'"); i >= 0 && j > i {
			// another wording: the named flag is what stands between the first back-quote and the last quote
			o.ErrWord = toS(msg[i+1 : j])
		}
	case flags.ErrUnknownCommand:
		const pre = "Unknown command `"
		if strings.HasPrefix(msg, pre) {
			rest := msg[len(pre):]
			// the word ends at the last "'" that is followed by one of the known continuations
			cut := -1
			for _, cont := range []string{"', did you mean `", "'. You should use the ", "'. Please specify one command of: "} {
				if i := strings.LastIndex(rest, cont); i > cut {
					cut = i
				}
			}
			if cut < 0 && strings.HasSuffix(rest, "'") {
				cut = len(rest) - 1
			}
			if cut >= 0 {
				o.ErrWord = toS(rest[:cut])
			}
		} else if i := strings.Index(msg, "`"); i >= 0 {
			// another wording: the word is the first quoted item
			if j := strings.Index(msg[i+1:], "'"); j >= 0 {
				o.ErrWord = toS(msg[i+1 : i+1+j])
			}
		}
	case flags.ErrRequired:
		positional := strings.HasPrefix(msg, "the required argument")
		rest := msg
		for {
			i := strings.Index(rest, "`")
			if i < 0 {
				break
			}
			rest = rest[i+1:]
			var j int
			if positional {
				j = strings.Index(rest, "`")
			} else {
				j = strings.Index(rest, "'")
			}
			if j < 0 {
				break
			}
			name := rest[:j]
			if positional {
				if k := strings.Index(name, " ("); k >= 0 {
					name = name[:k]
				}
			}
			o.ErrNames = append(o.ErrNames, toS(name))
			rest = rest[j+1:]
		}
	case flags.ErrMarshal, flags.ErrExpectedArgument, flags.ErrNoArgumentForBool:
		if n, ok := between(msg, "flag `", "'"); ok {
			o.ErrOpt = toS(n)
		}
	case flags.ErrInvalidChoice:
		if i := strings.Index(msg, "' for option `"); i >= 0 {
			if n, ok := between(msg[i:], "option `", "'"); ok {
				o.ErrOpt = toS(n)
			}
		}
		if i := strings.LastIndex(msg, "Allowed values are: "); i >= 0 {
			o.ErrList = splitList(msg[i+len("Allowed values are: "):])
		}
	}
}

type capture struct {
	f    *os.File
	orig *os.File
}

var capOut, capErr *os.File

func initCapture(dir string) {
	var err error
	capOut, err = os.CreateTemp(dir, "stdout")
	if err != nil {
		panic(err)
	}
	capErr, err = os.CreateTemp(dir, "stderr")
	if err != nil {
		panic(err)
	}
	os.Remove(capOut.Name())
	os.Remove(capErr.Name())
}

func capReset(f *os.File) {
	f.Truncate(0)
	f.Seek(0, 0)
}

func capRead(f *os.File) string {
	st, _ := f.Stat()
	b := make([]byte, st.Size())
	f.ReadAt(b, 0)
	return string(b)
}

func outClass(got string, err error) int {
	if got == "" {
		return 0
	}
	if err != nil && got == err.Error()+"\n" {
		return 1
	}
	return 2
}

// runArgparse runs one scenario against the real library.
func runArgparse(t *Tree, sc *Scenario, argv []S) (obs *Obs) {
	obs = &Obs{ErrNames: []S{}, ErrList: []S{}, Values: [][]any{}, Pos: [][][]S{}, Retargs: []S{}, Chain: []int{}, Events: []event{}, IsSet: []bool{}, IsSetDef: []bool{}}
	b := buildWith(t, poptsOf(sc.POpts), true, sc.HasPrelude && sc.LateGroup)
	if b.err != nil {
		obs.SetupErr = b.err.Error()
		classifyErr(b.err, obs)
		return obs
	}
	p := b.p
	switch sc.Handler {
	case "identity":
		p.UnknownOptionHandler = func(option string, arg flags.SplitArgument, args []string) ([]string, error) {
			b.logUnk(option, arg, args)
			return args, nil
		}
	case "dropnext":
		p.UnknownOptionHandler = func(option string, arg flags.SplitArgument, args []string) ([]string, error) {
			b.logUnk(option, arg, args)
			if len(args) > 0 {
				return args[1:], nil
			}
			return args, nil
		}
	case "dropall":
		// consumes everything that is left and says so with a nil slice
		p.UnknownOptionHandler = func(option string, arg flags.SplitArgument, args []string) ([]string, error) {
			b.logUnk(option, arg, args)
			return nil, nil
		}
	case "inject":
		p.UnknownOptionHandler = func(option string, arg flags.SplitArgument, args []string) ([]string, error) {
			b.logUnk(option, arg, args)
			return append([]string{"x"}, args...), nil
		}
	case "error":
		p.UnknownOptionHandler = func(option string, arg flags.SplitArgument, args []string) ([]string, error) {
			b.logUnk(option, arg, args)
			return nil, errHandler
		}
	}
	if sc.CmdHandler {
		b.via = true
		p.CommandHandler = func(cmd flags.Commander, args []string) error {
			if cmd != nil {
				return cmd.Execute(args)
			}
			b.log.add(event{"k": "exec", "c": 0, "args": toSs(append([]string{}, args...)), "viaHandler": true})
			if sc.ExecErr {
				return errExec
			}
			return nil
		}
	}
	for _, e := range b.execs {
		if e != nil {
			e.fail = sc.ExecErr
		}
	}
	for _, kv := range sc.Env {
		os.Setenv(kv.K.String(), kv.V.String())
	}
	defer func() {
		for _, kv := range sc.Env {
			os.Unsetenv(kv.K.String())
		}
	}()
	args := make([]string, len(argv))
	for i, a := range argv {
		args[i] = a.String()
	}
	if sc.HasPrelude {
		pre := make([]string, len(sc.Prelude))
		for i, a := range sc.Prelude {
			pre[i] = a.String()
		}
		so, se := os.Stdout, os.Stderr
		os.Stdout, os.Stderr = capOut, capErr
		func() {
			defer func() { recover() }()
			p.ParseArgs(pre)
		}()
		os.Stdout, os.Stderr = so, se
		b.log.evs = nil
		b.AttachLate()
		if sc.RenameOpt > 0 && sc.RenameOpt <= len(b.opts) {
			want := nodeKey(b.opts[sc.RenameOpt-1])
			eachOption(p.Command, func(o *flags.Option) {
				if optKey(o) == want {
					o.LongName = sc.RenameLong.String()
				}
			})
		}
	}
	if len(sc.Completion) > 0 {
		os.Setenv("GO_FLAGS_COMPLETION", sc.Completion.String())
		defer os.Unsetenv("GO_FLAGS_COMPLETION")
		p.CompletionHandler = func(items []flags.Completion) {}
	}

	capReset(capOut)
	capReset(capErr)
	so, se := os.Stdout, os.Stderr
	os.Stdout, os.Stderr = capOut, capErr
	var rest []string
	var err error
	func() {
		defer func() {
			if r := recover(); r != nil {
				obs.Panic = true
				obs.PanicMsg = toS(fmt.Sprint(r))
				if os.Getenv("VH_STACK") != "" {
					fmt.Fprintf(se, "panic: %v\n%s\n", r, debug.Stack())
				}
			}
		}()
		given := append([]string{}, args...)
		obs.ArgvIntact = true
		rest, err = p.ParseArgs(args)
		for i := range given {
			if args[i] != given[i] {
				obs.ArgvIntact = false
			}
		}
	}()
	os.Stdout, os.Stderr = so, se
	if obs.Panic {
		obs.ErrType = "panic"
		return obs
	}
	obs.Ok = err == nil
	classifyErr(err, obs)
	obs.Stdout = outClass(capRead(capOut), err)
	obs.Stderr = outClass(capRead(capErr), err)
	obs.Retargs = toSs(rest)
	b.fillState(obs)
	return obs
}

func (b *Built) logUnk(option string, arg flags.SplitArgument, args []string) {
	v, has := arg.Value()
	b.log.add(event{"k": "unk", "name": toS(option), "has": has, "arg": toS(v), "rest": toSs(append([]string{}, args...))})
}

// fillState reads option values, positionals, the active chain, events and sentinels.
func (b *Built) fillState(obs *Obs) {
	for i, o := range b.opts {
		obs.Values = append(obs.Values, obsValue(o, b.optVal[i]))
	}
	for ci := range b.cmds {
		row := [][]S{}
		for ai, f := range b.args[ci] {
			cell := []S{}
			if b.argN[ci][ai].Slice {
				for k := 0; k < f.Len(); k++ {
					cell = append(cell, toS(atomText(f.Index(k))))
				}
			} else if b.argN[ci][ai].Map {
				var ents []string
				for _, k := range f.MapKeys() {
					ents = append(ents, k.String()+":"+atomText(f.MapIndex(k)))
				}
				sort.Strings(ents) // by code point, as the specification's SortStrs
				for _, e := range ents {
					cell = append(cell, toS(e))
				}
			} else {
				cell = append(cell, toS(atomText(f)))
			}
			row = append(row, cell)
		}
		obs.Pos = append(obs.Pos, row)
	}
	c := b.p.Command
	for c != nil {
		id := 0
		for i, fc := range b.cmds {
			if fc == c {
				id = i + 1
			}
		}
		obs.Chain = append(obs.Chain, id)
		c = c.Active
	}
	obs.Events = append(obs.Events, b.log.evs...)
	obs.Untouched = true
	for _, pl := range b.plains {
		if pl.String() != sentinel {
			obs.Untouched = false
		}
	}
	for _, pp := range b.pptrs {
		if !pp.IsNil() {
			obs.Untouched = false
		}
	}
	// a second reference to the backing array of a preset slice must still see the preset elements
	for _, al := range b.aliases {
		for i, want := range al.want {
			if i >= al.alias.Len() || atomText(al.alias.Index(i)) != want {
				obs.Untouched = false
			}
		}
	}
	// IsSet per option through the public model
	byField := map[string]*flags.Option{}
	var walkG func(g *flags.Group)
	walkG = func(g *flags.Group) {
		for _, o := range g.Options() {
			byField[optKey(o)] = o
		}
		for _, sg := range g.Groups() {
			walkG(sg)
		}
	}
	var walkC func(c *flags.Command)
	walkC = func(c *flags.Command) {
		walkG(c.Group)
		for _, sc := range c.Commands() {
			walkC(sc)
		}
	}
	walkC(b.p.Command)
	for _, o := range b.opts {
		fo := byField[nodeKey(o)]
		obs.IsSet = append(obs.IsSet, fo != nil && fo.IsSet())
		obs.IsSetDef = append(obs.IsSetDef, fo != nil && fo.IsSetDefault())
	}
}
