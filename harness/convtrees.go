package main

// The declarations of the conversion checks (C11): one tree per (element type, base) with that type reachable as a
// scalar, a slice element, a map value, a pointer target, a callback parameter and a positional argument.

import (
	"bufio"
	"flag"
	"os"
)

var convIntTypes = []string{"int", "int8", "int16", "int32", "int64", "uint", "uint8", "uint16", "uint32", "uint64"}
var convBases = []int{0, 2, 8, 16, 36} // 0 = no base tag (decimal)
var convOtherTypes = []string{"float32", "float64", "bool", "string", "duration", "um", "tb"}

func convTree(id int, vt string, base int) *Tree {
	mk := func(long, kind string) *OptNode {
		o := &OptNode{Long: long, Kind: kind, VType: vt, Base: base}
		return o
	}
	opts := []*OptNode{mk("v", "scalar"), mk("l", "slice"), mk("m", "map"), mk("p", "ptr"), mk("c", "func1"), mk("q", "sliceptr")}
	if vt == "bool" {
		// a bool scalar is a flag; the typed bool conversion is reached through slices of maps only
		opts = []*OptNode{mk("m", "map"), mk("c", "func1")}
	}
	opts[0].Short = "x"
	if vt == "string" {
		opts = append(opts, &OptNode{Long: "choice", Kind: "scalar", VType: "string", Choices: []string{"a", "ab", "b c", "é"}},
			&OptNode{Long: "choices", Kind: "slice", VType: "string", Choices: []string{"one"}},
			&OptNode{Long: "level", Kind: "scalar", VType: "string", Choices: []string{"warn", "info", "debug", "error", "Info"}}, // declared out of order
			&OptNode{Long: "mapchoice", Kind: "map", VType: "string", Choices: []string{"k:v", "k"}})
	}
	t := &Tree{ID: id, NsDelim: ".", EnvDelim: "_", Note: "conv " + vt + " base " + itoa(base)}
	root := &CmdNode{Name: "app", Style: "root"}
	root.Extra = append(root.Extra, &GroupNode{Desc: "Application Options", Opts: opts})
	if vt != "bool" {
		root.Args = []*ArgNode{{Name: "pos", VType: vt, Base: base}}
	}
	t.Root = root
	return t
}

func convTrees() []*Tree {
	var ts []*Tree
	for _, vt := range convIntTypes {
		for _, b := range convBases {
			ts = append(ts, convTree(len(ts)+1, vt, b))
		}
	}
	for _, vt := range convOtherTypes {
		ts = append(ts, convTree(len(ts)+1, vt, 0))
	}
	return ts
}

func cmdConvTrees(args []string) {
	fs := flag.NewFlagSet("conv-trees", flag.ExitOnError)
	outTrees := fs.String("trees", "conv_trees.ndjson", "")
	outDecls := fs.String("decls", "conv_decls.ndjson", "")
	fs.Parse(args)
	ft, _ := os.Create(*outTrees)
	fd, _ := os.Create(*outDecls)
	wt, wd := bufio.NewWriter(ft), bufio.NewWriter(fd)
	for _, t := range convTrees() {
		Flatten(t)
		if !treeOK(t) {
			die(2, "conversion tree %d (%s) is not accepted by the library", t.ID, t.Note)
		}
		wt.Write(marshalLine(t))
		wd.Write(marshalLine(Flatten(t)))
	}
	wt.Flush()
	wd.Flush()
}
