package main

// Family "decl" (C19): a declaration given as raw struct tag texts; the public model read back through
// Groups / Options / Commands / Args, or the typed setup error.

import (
	"encoding/json"
	"fmt"
	"math/rand"
	"reflect"
	"strconv"
	"strings"

	flags "github.com/jessevdk/go-flags"
)

type FieldSpec struct {
	Name  S           `json:"name"`
	FType string      `json:"ftype"` // bool bools pbool func0 string int strs map group command posargs
	Tag   S           `json:"tag"`
	Sub   []FieldSpec `json:"sub"`
}

type DeclScn struct {
	Fam    string      `json:"fam"`
	ID     int         `json:"id"`
	Fields []FieldSpec `json:"fields"`
	Tags   []string    `json:"tags"`
	Repeat int         `json:"repeat"`
	Obs    *DeclObs    `json:"obs,omitempty"`
}

type MOpt struct {
	Field     S    `json:"field"`
	Short     int  `json:"short"`
	Long      S    `json:"long"`
	NsLong    S    `json:"nsLong"`
	Desc      S    `json:"desc"`
	Defaults  []S  `json:"defaults"`
	OptVals   []S  `json:"optvals"`
	ValueName S    `json:"valueName"`
	Mask      S    `json:"mask"`
	Optional  bool `json:"optional"`
	Required  bool `json:"required"`
	Choices   []S  `json:"choices"`
	Hidden    bool `json:"hidden"`
	Env       S    `json:"env"`
	EnvKey    S    `json:"envKey"`
	EnvDelim  S    `json:"envDelim"`
}

type MGroup struct {
	Desc     S    `json:"desc"`
	LongDesc S    `json:"longDesc"`
	Ns       S    `json:"ns"`
	EnvNs    S    `json:"envNs"`
	Hidden   bool `json:"hidden"`
}

type MCmd struct {
	Name     S        `json:"name"`
	Desc     S        `json:"desc"`
	LongDesc S        `json:"longDesc"`
	SubOpt   bool     `json:"subOpt"`
	Aliases  []S      `json:"aliases"`
	Hidden   bool     `json:"hidden"`
	Opts     []MOpt   `json:"opts"`   // the command's own options, then those of its nested groups, pre-order
	Groups   []MGroup `json:"groups"` // its nested groups, pre-order
	NSub     int      `json:"nsub"`   // number of sub-commands
	NArgs    int      `json:"nargs"`  // number of positional arguments
}

type MArg struct {
	Name S   `json:"name"`
	Desc S   `json:"desc"`
	Req  int `json:"req"`
	Max  int `json:"max"`
}

// FindObs: one look-up through the public API on the finished parser.  Cmd 0 = the parser itself
// (Parser.FindOptionByLongName / ...ByShortName / Find), k > 0 = its k-th top-level command.
type FindObs struct {
	Cmd   int    `json:"cmd"`
	Kind  string `json:"kind"` // long | short | cmd
	Name  S      `json:"name"`
	Field S      `json:"field"` // the struct field name of the option found (command: its name); empty = nil
}

type DeclObs struct {
	Panic    bool      `json:"panic"`
	Timeout  bool      `json:"timeout"`
	PanicMsg S         `json:"panicMsg"`
	Err      string    `json:"err"` // none | ErrTag | ErrShortNameTooLong | ErrInvalidTag | ErrDuplicatedFlag | other
	ErrMsg   S         `json:"errMsg"`
	Opts     []MOpt    `json:"opts"`
	Groups   []MGroup  `json:"groups"`
	Cmds     []MCmd    `json:"cmds"`
	Args     []MArg    `json:"args"`
	ArgsReq  bool      `json:"argsReq"`
	Distinct int       `json:"distinct"`
	Finds    []FindObs `json:"finds"`
}

var declTypes = map[string]reflect.Type{
	"bool": reflect.TypeOf(false), "bools": reflect.TypeOf([]bool{}), "pbool": reflect.TypeOf((*bool)(nil)), "func0": reflect.TypeOf(func() {}),
	"string": reflect.TypeOf(""), "int": reflect.TypeOf(0), "strs": reflect.TypeOf([]string{}), "map": reflect.TypeOf(map[string]string{}),
}

func declStruct(fields []FieldSpec) reflect.Type {
	var fs []reflect.StructField
	for _, f := range fields {
		var t reflect.Type
		switch f.FType {
		case "group", "command", "posargs":
			t = declStruct(f.Sub)
		default:
			t = declTypes[f.FType]
		}
		fs = append(fs, reflect.StructField{Name: f.Name.String(), Type: t, Tag: reflect.StructTag(f.Tag.String())})
	}
	return reflect.StructOf(fs)
}

func mopt(o *flags.Option) MOpt {
	return MOpt{Field: toS(o.Field().Name), Short: int(o.ShortName), Long: toS(o.LongName), NsLong: toS(o.LongNameWithNamespace()), Desc: toS(o.Description),
		Defaults: toSs(o.Default), OptVals: toSs(o.OptionalValue), ValueName: toS(o.ValueName), Mask: toS(o.DefaultMask), Optional: o.OptionalArgument,
		Required: o.Required, Choices: toSs(o.Choices), Hidden: o.Hidden, Env: toS(o.EnvDefaultKey), EnvKey: toS(o.EnvKeyWithNamespace()), EnvDelim: toS(o.EnvDefaultDelim)}
}

func runDecl(sc *DeclScn) *DeclObs {
	obs := &DeclObs{Opts: []MOpt{}, Groups: []MGroup{}, Cmds: []MCmd{}, Args: []MArg{}, Err: "none", Finds: []FindObs{}}
	func() {
		defer func() {
			if r := recover(); r != nil {
				obs.Panic = true
				obs.PanicMsg = toS(fmt.Sprint(r))
			}
		}()
		st := declStruct(sc.Fields)
		pv := reflect.New(st)
		p := flags.NewParser(pv.Interface(), flags.None)
		p.SubcommandsOptional = true
		_, err := p.ParseArgs([]string{})
		if err != nil {
			obs.ErrMsg = toS(err.Error())
			if fe, ok := err.(*flags.Error); ok {
				obs.Err = errTypeNames[fe.Type]
			} else {
				obs.Err = "foreign"
			}
			switch obs.Err {
			case "ErrTag", "ErrShortNameTooLong", "ErrInvalidTag", "ErrDuplicatedFlag":
				return
			}
			// errors of the parse itself (a required option is missing) are not setup errors
			obs.Err = "none"
		}
		var walk func(g *flags.Group, opts *[]MOpt, groups *[]MGroup)
		walk = func(g *flags.Group, opts *[]MOpt, groups *[]MGroup) {
			for _, o := range g.Options() {
				*opts = append(*opts, mopt(o))
			}
			for _, sg := range g.Groups() {
				*groups = append(*groups, MGroup{Desc: toS(sg.ShortDescription), LongDesc: toS(sg.LongDescription), Ns: toS(sg.Namespace), EnvNs: toS(sg.EnvNamespace), Hidden: sg.Hidden})
				walk(sg, opts, groups)
			}
		}
		// p.Command.Group -> "Application Options" -> nested groups
		for _, g := range p.Command.Group.Groups() {
			walk(g, &obs.Opts, &obs.Groups)
		}
		for _, c := range p.Commands() {
			mc := MCmd{Name: toS(c.Name), Desc: toS(c.ShortDescription), LongDesc: toS(c.LongDescription), SubOpt: c.SubcommandsOptional, Aliases: toSs(c.Aliases), Hidden: c.Hidden,
				Opts: []MOpt{}, Groups: []MGroup{}, NSub: len(c.Commands()), NArgs: len(c.Args())}
			walk(c.Group, &mc.Opts, &mc.Groups)
			obs.Cmds = append(obs.Cmds, mc)
		}
		for _, a := range p.Args() {
			obs.Args = append(obs.Args, MArg{Name: toS(a.Name), Desc: toS(a.Description), Req: a.Required, Max: a.RequiredMaximum})
		}
		obs.ArgsReq = p.ArgsRequired
		// look-ups: every long name (with namespaces) and short name that occurs anywhere in the declaration, and one that does not,
		// asked of the parser and of each top-level command; every command name and alias asked of the parser
		var longs, shorts []S
		seenL, seenS := map[string]bool{}, map[int]bool{}
		note := func(os []MOpt) {
			for _, o := range os {
				if len(o.NsLong) > 0 && !seenL[o.NsLong.String()] {
					seenL[o.NsLong.String()] = true
					longs = append(longs, o.NsLong)
				}
				if o.Short != 0 && !seenS[o.Short] {
					seenS[o.Short] = true
					shorts = append(shorts, S{o.Short})
				}
			}
		}
		note(obs.Opts)
		for _, c := range obs.Cmds {
			note(c.Opts)
		}
		longs = append(longs, toS("no.such"))
		shorts = append(shorts, toS("~"))
		fieldOf := func(o *flags.Option) S {
			if o == nil {
				return S{}
			}
			return toS(o.Field().Name)
		}
		cmds := p.Commands()
		for k := 0; k <= len(cmds); k++ {
			for _, l := range longs {
				var o *flags.Option
				if k == 0 {
					o = p.FindOptionByLongName(l.String())
				} else {
					o = cmds[k-1].FindOptionByLongName(l.String())
				}
				obs.Finds = append(obs.Finds, FindObs{Cmd: k, Kind: "long", Name: l, Field: fieldOf(o)})
			}
			for _, sh := range shorts {
				var o *flags.Option
				if k == 0 {
					o = p.FindOptionByShortName(rune(sh[0]))
				} else {
					o = cmds[k-1].FindOptionByShortName(rune(sh[0]))
				}
				obs.Finds = append(obs.Finds, FindObs{Cmd: k, Kind: "short", Name: sh, Field: fieldOf(o)})
			}
		}
		names := []S{toS("no such")}
		for _, c := range obs.Cmds {
			names = append(names, c.Name)
			names = append(names, c.Aliases...)
		}
		for _, n := range names {
			f := S{}
			if c := p.Find(n.String()); c != nil {
				f = toS(c.Name)
			}
			obs.Finds = append(obs.Finds, FindObs{Cmd: 0, Kind: "cmd", Name: n, Field: f})
		}
	}()
	return obs
}

func init() {
	families["decl"] = family{
		run: func(trees []*Tree, line []byte) any {
			sc := &DeclScn{}
			if err := json.Unmarshal(line, sc); err != nil {
				die(2, "decl scenario: %v", err)
			}
			sc.Obs = runDecl(sc)
			sc.Obs.Distinct = 1
			if sc.Repeat > 1 {
				first, _ := json.Marshal(sc.Obs)
				seen := map[string]bool{string(first): true}
				for i := 1; i < sc.Repeat; i++ {
					o := runDecl(sc)
					o.Distinct = 1
					j, _ := json.Marshal(o)
					seen[string(j)] = true
				}
				sc.Obs.Distinct = len(seen)
			}
			return sc
		},
		crash: func(line []byte, timeout bool, msg string) any {
			sc := &DeclScn{}
			json.Unmarshal(line, sc)
			sc.Obs = &DeclObs{Panic: !timeout, Timeout: timeout, PanicMsg: toS(msg), Opts: []MOpt{}, Groups: []MGroup{}, Cmds: []MCmd{}, Args: []MArg{}, Finds: []FindObs{}}
			return sc
		},
	}
}

// ---- generation

var tagValues = []string{"", "a", "x y", "é", "世界", `q"uote`, `back\slash`, "tab\there", "nl\nline", "a:b", "k=v", " lead", "1", "0", "false", "no", "true", "yes", "-", "'", "`"}

// quoteTagValue writes a value as a Go string literal, sometimes with escapes that are not needed
func quoteTagValue(r *rand.Rand, v string) string {
	if chance(r, 0.15) {
		var b strings.Builder
		b.WriteByte('"')
		for _, c := range v {
			switch {
			case c == '"':
				b.WriteString(`\"`)
			case c == '\\':
				b.WriteString(`\\`)
			case c == '\n':
				b.WriteString(`\n`)
			case c == '\t':
				b.WriteString(`\t`)
			case c < 128 && chance(r, 0.3):
				b.WriteString(fmt.Sprintf(`\x%02x`, c))
			case c < 0x10000 && chance(r, 0.3):
				b.WriteString(fmt.Sprintf(`\u%04x`, c))
			default:
				b.WriteRune(c)
			}
		}
		b.WriteByte('"')
		return b.String()
	}
	return strconv.Quote(v)
}

func joinTag(r *rand.Rand, kvs [][2]string) string {
	var parts []string
	for _, kv := range kvs {
		parts = append(parts, kv[0]+":"+quoteTagValue(r, kv[1]))
	}
	sep := " "
	if chance(r, 0.1) {
		sep = pick(r, []string{"  ", "", "   "})
	}
	s := strings.Join(parts, sep)
	if chance(r, 0.1) {
		s = " " + s + " "
	}
	return s
}

func genOptTag(r *rand.Rand, used map[string]bool, ftype string) string {
	var kvs [][2]string
	short, long := "", ""
	for tries := 0; tries < 10; tries++ {
		short, long = "", ""
		if chance(r, 0.7) {
			short = pick(r, shortPool)
		}
		if short == "" || chance(r, 0.7) {
			long = pick(r, longPool)
		}
		if chance(r, 0.9) && (used["s"+short] && short != "" || used["l"+long] && long != "") {
			continue
		}
		break
	}
	used["s"+short], used["l"+long] = true, true
	if short != "" {
		if chance(r, 0.04) {
			short = pick(r, []string{"ab", "éé", "xy z"})
		}
		kvs = append(kvs, [2]string{"short", short})
	}
	if long != "" {
		kvs = append(kvs, [2]string{"long", long})
	}
	add := func(k string, vs ...string) {
		for _, v := range vs {
			kvs = append(kvs, [2]string{k, v})
		}
	}
	if chance(r, 0.5) {
		add("description", pick(r, tagValues))
	}
	boolish := ftype == "bool" || ftype == "bools" || ftype == "pbool" || ftype == "func0"
	if chance(r, 0.3) && (!boolish || chance(r, 0.1)) {
		n := 1 + r.Intn(3)
		for i := 0; i < n; i++ {
			add("default", pick(r, tagValues))
		}
	}
	if chance(r, 0.2) {
		add("choice", pick(r, tagValues), pick(r, tagValues))
	}
	for _, k := range []string{"required", "hidden", "optional"} {
		if chance(r, 0.25) {
			add(k, pick(r, []string{"true", "yes", "1", "", "false", "no", "0", "x"}))
		}
	}
	if chance(r, 0.2) {
		add("optional-value", pick(r, tagValues))
	}
	if chance(r, 0.2) {
		add("env", pick(r, []string{"VF_A", "É", "a b"}))
		if chance(r, 0.5) {
			add("env-delim", pick(r, []string{",", "::", ""}))
		}
	}
	if chance(r, 0.2) {
		add("value-name", pick(r, tagValues))
	}
	if chance(r, 0.15) {
		add("default-mask", pick(r, tagValues))
	}
	if chance(r, 0.1) {
		add("ini-name", pick(r, tagValues))
	}
	if chance(r, 0.05) {
		add("no-flag", pick(r, []string{"1", ""}))
	}
	if chance(r, 0.1) {
		add("unknown-key", pick(r, tagValues))
	}
	// repeated single-valued keys: the last one counts
	if chance(r, 0.15) && len(kvs) > 0 {
		kv := pick(r, kvs)
		add(kv[0], pick(r, tagValues))
	}
	r.Shuffle(len(kvs), func(i, j int) { kvs[i], kvs[j] = kvs[j], kvs[i] })
	return joinTag(r, kvs)
}

func malform(r *rand.Rand, tag string) string {
	if tag == "" {
		return pick(r, []string{"short", "short:", `short:"v`, `:"x"`, `"`, `a b:"c"`, "short:\"a\nb\""})
	}
	b := []byte(tag)
	at := r.Intn(len(b) + 1)
	switch r.Intn(6) {
	case 0: // truncate
		return string(b[:at])
	case 1: // delete one byte
		if at == len(b) {
			at--
		}
		return string(b[:at]) + string(b[at+1:])
	case 2: // insert a structural character
		return string(b[:at]) + pick(r, []string{`"`, ":", " ", `\`, "\n"}) + string(b[at:])
	case 3: // replace by a structural character
		if at == len(b) {
			at--
		}
		return string(b[:at]) + pick(r, []string{`"`, ":", " ", `\`}) + string(b[at+1:])
	case 4: // bad escape inside the first value
		return strings.Replace(tag, `:"`, `:"\q`, 1)
	}
	return tag + pick(r, []string{" x", ` y:"`, ` z:"1`, `:`})
}

var optFTypes = []string{"bool", "bools", "pbool", "func0", "string", "string", "int", "strs", "map"}

func genDecl(r *rand.Rand, id int) *DeclScn {
	sc := &DeclScn{Fam: "decl", ID: id, Tags: []string{}}
	used := map[string]bool{}
	n := 1 + r.Intn(4)
	fno := 0
	mk := func(u map[string]bool) FieldSpec {
		fno++
		ft := pick(r, optFTypes)
		return FieldSpec{Name: toS("F" + itoa(fno)), FType: ft, Tag: toS(genOptTag(r, u, ft)), Sub: []FieldSpec{}}
	}
	for i := 0; i < n; i++ {
		sc.Fields = append(sc.Fields, mk(used))
	}
	// nested groups to depth three, with or without namespaces; collisions through the namespaces are likely by construction of
	// the pools (a long name "x.alpha" / "a.al" next to group x > option alpha), also across an un-namespaced group inside a namespaced one
	var genGroup func(depth int, outer map[string]bool) FieldSpec
	genGroup = func(depth int, outer map[string]bool) FieldSpec {
		gu := map[string]bool{}
		if chance(r, 0.5) {
			gu = outer // share the bookkeeping: no direct collisions
		}
		var sub []FieldSpec
		for i, m := 0, r.Intn(3); i < m; i++ {
			sub = append(sub, mk(gu))
		}
		for depth < 3 && chance(r, 0.35) {
			sub = append(sub, genGroup(depth+1, gu))
		}
		if len(sub) == 0 {
			sub = append(sub, mk(gu))
		}
		kvs := [][2]string{{"group", pick(r, []string{"Nested", "Grp é", "x"})}}
		if chance(r, 0.55) {
			kvs = append(kvs, [2]string{"namespace", pick(r, []string{"x", "a", "ns", "al"})})
		}
		if chance(r, 0.3) {
			kvs = append(kvs, [2]string{"env-namespace", pick(r, []string{"N", "É"})})
		}
		if chance(r, 0.2) {
			kvs = append(kvs, [2]string{"hidden", "yes"})
		}
		if chance(r, 0.3) {
			kvs = append(kvs, [2]string{"description", pick(r, tagValues)})
		}
		fno++
		if chance(r, 0.06) {
			kvs = append(kvs, [2]string{"no-flag", pick(r, []string{"1", "yes"})}) // the whole struct is left out
		}
		return FieldSpec{Name: toS("G" + itoa(fno)), FType: "group", Tag: toS(joinTag(r, kvs)), Sub: sub}
	}
	var genPos func() FieldSpec
	var genCmd func(depth int) FieldSpec
	genCmd = func(depth int) FieldSpec {
		cu := map[string]bool{}
		var sub []FieldSpec
		for i, m := 0, r.Intn(3); i < m; i++ {
			sub = append(sub, mk(cu))
		}
		if chance(r, 0.3) {
			sub = append(sub, genGroup(1, cu))
		}
		if chance(r, 0.2) {
			sub = append(sub, genPos())
		}
		if depth < 2 && chance(r, 0.25) {
			sub = append(sub, genCmd(depth+1))
		}
		kvs := [][2]string{{"command", pick(r, []string{"add", "naïve", "x y"})}}
		for i, m := 0, r.Intn(3); i < m; i++ {
			kvs = append(kvs, [2]string{"alias", pick(r, []string{"a", "ad", "é"})})
		}
		if chance(r, 0.3) {
			kvs = append(kvs, [2]string{"subcommands-optional", pick(r, []string{"1", "false"})})
		}
		if chance(r, 0.3) {
			kvs = append(kvs, [2]string{"description", pick(r, tagValues)})
		}
		if chance(r, 0.2) {
			kvs = append(kvs, [2]string{"long-description", pick(r, tagValues)})
		}
		if chance(r, 0.2) {
			kvs = append(kvs, [2]string{"hidden", "1"})
		}
		fno++
		if chance(r, 0.06) {
			kvs = append(kvs, [2]string{"no-flag", pick(r, []string{"1", "yes"})}) // the whole struct is left out
		}
		return FieldSpec{Name: toS("C" + itoa(fno)), FType: "command", Tag: toS(joinTag(r, kvs)), Sub: sub}
	}
	genPos = func() FieldSpec {
		var sub []FieldSpec
		for i, m := 0, 1+r.Intn(3); i < m; i++ {
			fno++
			var kvs [][2]string
			if chance(r, 0.6) {
				kvs = append(kvs, [2]string{"positional-arg-name", pick(r, tagValues[1:])})
			}
			if chance(r, 0.4) {
				kvs = append(kvs, [2]string{"description", pick(r, tagValues)})
			}
			ft := "string"
			if i == m-1 && chance(r, 0.5) {
				ft = "strs"
			}
			if chance(r, 0.5) {
				kvs = append(kvs, [2]string{"required", pick(r, []string{"yes", "1", "2", "1-3", "0-1", "10", "true", "0", "-2", "2-", "-", "1--3", "+1", "1-+2", "x-2", "1-x", "--", "007", "3-1"})})
			}
			sub = append(sub, FieldSpec{Name: toS("A" + itoa(fno)), FType: ft, Tag: toS(joinTag(r, kvs)), Sub: []FieldSpec{}})
		}
		kvs := [][2]string{{"positional-args", "yes"}}
		if chance(r, 0.3) {
			kvs = append(kvs, [2]string{"required", "yes"})
		}
		fno++
		if chance(r, 0.06) {
			kvs = append(kvs, [2]string{"no-flag", pick(r, []string{"1", "yes"})}) // the whole struct is left out
		}
		return FieldSpec{Name: toS("P" + itoa(fno)), FType: "posargs", Tag: toS(joinTag(r, kvs)), Sub: sub}
	}
	for chance(r, 0.5) && len(sc.Fields) < 8 {
		sc.Fields = append(sc.Fields, genGroup(1, used))
	}
	for chance(r, 0.4) && len(sc.Fields) < 10 {
		sc.Fields = append(sc.Fields, genCmd(1))
	}
	if chance(r, 0.4) {
		sc.Fields = append(sc.Fields, genPos())
	}
	// one malformed tag somewhere, now and then
	if chance(r, 0.25) {
		k := r.Intn(len(sc.Fields))
		f := &sc.Fields[k]
		for len(f.Sub) > 0 && chance(r, 0.5) {
			f = &f.Sub[r.Intn(len(f.Sub))]
		}
		f.Tag = toS(malform(r, f.Tag.String()))
		sc.Tags = append(sc.Tags, "malformed")
	}
	return sc
}
