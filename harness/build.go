package main

// Builder: declaration tree -> a real go-flags parser over struct types made
// with reflect.StructOf, plus accessors for every option / positional field.

import (
	"errors"
	"fmt"
	"reflect"
	"sort"
	"strconv"
	"strings"
	"time"

	flags "github.com/jessevdk/go-flags"
)

// ---- fixed named types that need methods

// UM is the harness' custom Unmarshaler / Marshaler.
type UM struct{ V string }

func (u *UM) UnmarshalFlag(s string) error {
	if strings.HasPrefix(s, "!") {
		return errors.New("um: refused")
	}
	u.V = "um:" + s
	return nil
}

func (u UM) MarshalFlag() (string, error) {
	return strings.TrimPrefix(u.V, "um:"), nil
}

// US is a string-kinded type with the same Unmarshaler / Marshaler behaviour as UM (its kind is string, its conversion is not).
type US string

func (u *US) UnmarshalFlag(s string) error {
	if strings.HasPrefix(s, "!") {
		return errors.New("um: refused")
	}
	*u = US("um:" + s)
	return nil
}

func (u US) MarshalFlag() (string, error) {
	return strings.TrimPrefix(string(u), "um:"), nil
}

// TB is a bool-kinded type with its own Unmarshaler: it takes an argument ("on" / "off") although its kind is bool.
type TB bool

func (t *TB) UnmarshalFlag(s string) error {
	switch s {
	case "on":
		*t = true
	case "off":
		*t = false
	default:
		return errors.New("tb: expected on or off")
	}
	return nil
}

// VV is a string with a ValueValidator: separate-token values starting with
// '!' are refused.
type VV string

func (v *VV) IsValidValue(s string) error {
	if strings.HasPrefix(s, "!") {
		return errors.New("vv: refused `" + s + "'")
	}
	return nil
}

// CC is a string type with completions.
type CC string

var ccWords = []string{"alpha", "alps", "beta", "be ta", "gamma"}

func (c *CC) Complete(match string) []flags.Completion {
	var out []flags.Completion
	for _, w := range ccWords {
		if strings.HasPrefix(w, match) {
			out = append(out, flags.Completion{Item: w})
		}
	}
	return out
}

var errExec = errors.New("harness: execute failed")
var errHandler = errors.New("harness: unknown-option handler failed")
var errCallback = errors.New("harness: callback failed")

type event map[string]any

type evlog struct{ evs []event }

func (l *evlog) add(e event) { l.evs = append(l.evs, e) }

// ExecCmd is the executable command type (a Commander).
type ExecCmd struct {
	id   int
	log  *evlog
	fail bool
	via  *bool
}

func (c *ExecCmd) Execute(args []string) error {
	c.log.add(event{"k": "exec", "c": c.id, "args": toSs(append([]string{}, args...)), "viaHandler": c.via != nil && *c.via})
	if c.fail {
		return errExec
	}
	return nil
}

// ExecUsage additionally implements Usage.
type ExecUsage struct{ ExecCmd }

func (c *ExecUsage) Usage() string { return "[custom-usage]" }

// ---- types

var typeByName = map[string]reflect.Type{
	"string":   reflect.TypeOf(""),
	"bool":     reflect.TypeOf(false),
	"int":      reflect.TypeOf(int(0)),
	"int8":     reflect.TypeOf(int8(0)),
	"int16":    reflect.TypeOf(int16(0)),
	"int32":    reflect.TypeOf(int32(0)),
	"int64":    reflect.TypeOf(int64(0)),
	"uint":     reflect.TypeOf(uint(0)),
	"uint8":    reflect.TypeOf(uint8(0)),
	"uint16":   reflect.TypeOf(uint16(0)),
	"uint32":   reflect.TypeOf(uint32(0)),
	"uint64":   reflect.TypeOf(uint64(0)),
	"float32":  reflect.TypeOf(float32(0)),
	"float64":  reflect.TypeOf(float64(0)),
	"duration": reflect.TypeOf(time.Duration(0)),
	"um":       reflect.TypeOf(UM{}),
	"us":       reflect.TypeOf(US("")),
	"tb":       reflect.TypeOf(TB(false)),
	"vv":       reflect.TypeOf(VV("")),
	"cc":       reflect.TypeOf(CC("")),
	"filename": reflect.TypeOf(flags.Filename("")),
}

var errType = reflect.TypeOf((*error)(nil)).Elem()

func optFieldType(o *OptNode) reflect.Type {
	vt := o.VType
	if o.Validator {
		vt = "vv"
	}
	et, ok := typeByName[vt]
	if !ok && o.Kind != "func0" && o.Kind != "flag" && o.Kind != "counter" && o.Kind != "ptrflag" {
		panic("unknown vtype " + vt)
	}
	switch o.Kind {
	case "flag":
		return typeByName["bool"]
	case "counter":
		return reflect.SliceOf(typeByName["bool"])
	case "ptrflag":
		return reflect.PtrTo(typeByName["bool"])
	case "scalar":
		return et
	case "slice":
		return reflect.SliceOf(et)
	case "sliceptr":
		return reflect.SliceOf(reflect.PtrTo(et))
	case "map":
		return reflect.MapOf(typeByName[ktypeOf(o)], et)
	case "ptr":
		return reflect.PtrTo(et)
	case "func0":
		if o.ErrPtr {
			return reflect.FuncOf(nil, []reflect.Type{reflect.TypeOf((*flags.Error)(nil))}, false)
		}
		if o.ErrFunc || o.FailOn != nil {
			return reflect.FuncOf(nil, []reflect.Type{errType}, false)
		}
		return reflect.FuncOf(nil, nil, false)
	case "func1":
		pt := et
		switch o.Param {
		case "slice":
			pt = reflect.SliceOf(et)
		case "map":
			pt = reflect.MapOf(typeByName["string"], et)
		case "ptr":
			pt = reflect.PtrTo(et)
		}
		if o.ErrFunc || o.FailOn != nil {
			return reflect.FuncOf([]reflect.Type{pt}, []reflect.Type{errType}, false)
		}
		return reflect.FuncOf([]reflect.Type{pt}, nil, false)
	}
	panic("unknown kind " + o.Kind)
}

func tagKV(k, v string) string { return k + ":" + strconv.Quote(v) }

// truthy: the spellings of "true" in a boolean tag vary with the option's number (everything that is not empty, "false",
// "no" or "0" counts as true).
func truthy(i int) string {
	if i < 0 {
		i = -i
	}
	return []string{"true", "yes", "1", "on", "y"}[i%5]
}

func optTag(o *OptNode) string {
	var t []string
	if o.FieldAlias != "" {
		t = append(t, tagKV("vid", itoa(o.idx)))
	}
	if o.Short != "" {
		t = append(t, tagKV("short", o.Short))
	}
	if o.Long != "" {
		t = append(t, tagKV("long", o.Long))
	}
	if o.Base != 0 {
		t = append(t, tagKV("base", strconv.Itoa(o.Base)))
	}
	if o.Optional {
		t = append(t, tagKV("optional", truthy(o.idx+1)))
	}
	for _, v := range o.OptVals {
		t = append(t, tagKV("optional-value", v))
	}
	if o.Required && !o.ReqField {
		t = append(t, tagKV("required", truthy(o.idx)))
	}
	for _, v := range o.Defaults {
		t = append(t, tagKV("default", v))
	}
	if o.Env != "" {
		t = append(t, tagKV("env", o.Env))
	}
	if o.EnvDelim != "" {
		t = append(t, tagKV("env-delim", o.EnvDelim))
	}
	for _, v := range o.Choices {
		t = append(t, tagKV("choice", v))
	}
	if o.Hidden {
		t = append(t, tagKV("hidden", truthy(o.idx+2)))
	}
	if o.NoUnquote {
		t = append(t, tagKV("unquote", "false"))
	}
	if o.IniName != "" {
		t = append(t, tagKV("ini-name", o.IniName))
	}
	if o.NoIni {
		t = append(t, tagKV("no-ini", truthy(o.idx+3)))
	}
	if o.ValueName != "" {
		t = append(t, tagKV("value-name", o.ValueName))
	}
	if o.Desc != "" {
		t = append(t, tagKV("description", o.Desc))
	}
	if o.Mask != "" {
		t = append(t, tagKV("default-mask", o.Mask))
	}
	return strings.Join(t, " ")
}

// Built is a realised declaration.
type Built struct {
	tree    *Tree
	decl    *Decl
	p       *flags.Parser
	log     *evlog
	opts    []*OptNode      // by flat index - 1
	optVal  []reflect.Value // addressable field values
	args    [][]reflect.Value
	argN    [][]*ArgNode
	plains  []reflect.Value // untagged sentinel string fields
	pptrs   []reflect.Value // untagged nil pointer fields
	cmds    []*flags.Command
	cnodes  []*CmdNode
	execs   []*ExecCmd
	err     error // setup error (AddGroup / AddCommand / NewParser)
	via     bool
	presets bool
	aliases []sliceAlias
	late    []func() error // deferred AddGroup calls (see buildWith)
}

// sliceAlias: a second reference to the backing array of a preset slice, and what it must keep showing
type sliceAlias struct {
	alias reflect.Value
	want  []string
}

const sentinel = "untouched-sentinel"

type plainInner struct{ X int }

// structFor builds the struct type for a group (and, when c != nil, the
// command-level members: tag-declared sub-commands and positional args).
func (b *Built) structFor(g *GroupNode, c *CmdNode) reflect.Type {
	var fs []reflect.StructField
	direct, inl := splitInline(g)
	for _, o := range direct {
		fs = append(fs, reflect.StructField{Name: o.field, Type: optFieldType(o), Tag: reflect.StructTag(optTag(o))})
	}
	if len(inl) > 0 {
		var ifs []reflect.StructField
		for _, o := range inl {
			ifs = append(ifs, reflect.StructField{Name: o.field, Type: optFieldType(o), Tag: reflect.StructTag(optTag(o))})
		}
		it := reflect.StructOf(ifs)
		if g.Inline == "ptr" {
			it = reflect.PtrTo(it)
		}
		fs = append(fs, reflect.StructField{Name: "In", Type: it})
	}
	fs = append(fs, reflect.StructField{Name: "Plain", Type: typeByName["string"]})
	fs = append(fs, reflect.StructField{Name: "PlainPtr", Type: reflect.TypeOf((*plainInner)(nil))})
	for i, sg := range g.Groups {
		st := b.structFor(sg, nil)
		var t []string
		t = append(t, tagKV("group", sg.Desc))
		if sg.Ns != "" {
			t = append(t, tagKV("namespace", sg.Ns))
		}
		if sg.EnvNs != "" {
			t = append(t, tagKV("env-namespace", sg.EnvNs))
		}
		if sg.Hidden {
			t = append(t, tagKV("hidden", "yes"))
		}
		ft := st
		if sg.Ptr {
			ft = reflect.PtrTo(st)
		}
		fs = append(fs, reflect.StructField{Name: "G" + itoa(i), Type: ft, Tag: reflect.StructTag(strings.Join(t, " "))})
	}
	for i, ng := range g.NoFlag {
		var nfs []reflect.StructField
		for k, o := range ng.Opts {
			nfs = append(nfs, reflect.StructField{Name: "NF" + itoa(k), Type: optFieldType(o), Tag: reflect.StructTag(optTag(o))})
		}
		t := tagKV("no-flag", "1")
		if ng.Desc != "" {
			t = tagKV("group", ng.Desc) + " " + t
		}
		fs = append(fs, reflect.StructField{Name: "N" + itoa(i), Type: reflect.StructOf(nfs), Tag: reflect.StructTag(t)})
	}
	if c != nil {
		for i, sc := range c.Cmds {
			if sc.Style != "tag" {
				continue
			}
			own := sc.Own
			if own == nil {
				own = &GroupNode{}
				sc.Own = own
			}
			st := b.structFor(own, sc)
			var t []string
			t = append(t, tagKV("command", sc.Name))
			for _, a := range sc.Aliases {
				t = append(t, tagKV("alias", a))
			}
			if sc.SubOpt {
				t = append(t, tagKV("subcommands-optional", "yes"))
			}
			if sc.Hidden {
				t = append(t, tagKV("hidden", "yes"))
			}
			if sc.Desc != "" {
				t = append(t, tagKV("description", sc.Desc))
			}
			if sc.LongDesc != "" {
				t = append(t, tagKV("long-description", sc.LongDesc))
			}
			fs = append(fs, reflect.StructField{Name: "C" + itoa(i), Type: st, Tag: reflect.StructTag(strings.Join(t, " "))})
		}
		if len(c.Args) > 0 {
			var afs []reflect.StructField
			for i, a := range c.Args {
				et := typeByName[a.VType]
				if a.Slice {
					et = reflect.SliceOf(et)
				}
				if a.Map {
					et = reflect.MapOf(typeByName["string"], et)
				}
				var t []string
				t = append(t, tagKV("positional-arg-name", a.Name))
				if a.ReqTag != "" {
					t = append(t, tagKV("required", a.ReqTag))
				}
				if a.Desc != "" {
					t = append(t, tagKV("description", a.Desc))
				}
				if a.Base != 0 {
					t = append(t, tagKV("base", strconv.Itoa(a.Base)))
				}
				afs = append(afs, reflect.StructField{Name: "A" + itoa(i), Type: et, Tag: reflect.StructTag(strings.Join(t, " "))})
			}
			t := tagKV("positional-args", "yes")
			if c.ArgsReq {
				t += " " + tagKV("required", "yes")
			}
			if k := c.ArgSplit; k > 0 && k < len(afs) {
				// two positional-args structs on one command: their fields follow one another
				fs = append(fs, reflect.StructField{Name: "Pos", Type: reflect.StructOf(afs[:k]), Tag: reflect.StructTag(t)})
				fs = append(fs, reflect.StructField{Name: "Pos2", Type: reflect.StructOf(afs[k:]), Tag: reflect.StructTag(t)})
			} else {
				fs = append(fs, reflect.StructField{Name: "Pos", Type: reflect.StructOf(afs), Tag: reflect.StructTag(t)})
			}
		}
	}
	return reflect.StructOf(fs)
}

// bind records the addressable field values of a realised struct.
func (b *Built) bind(v reflect.Value, g *GroupNode, c *CmdNode) {
	direct, inl := splitInline(g)
	for _, o := range direct {
		f := v.FieldByName(o.field)
		b.optVal[o.idx-1] = f
		b.opts[o.idx-1] = o
		b.preset(o, f)
	}
	if len(inl) > 0 {
		in := v.FieldByName("In")
		if in.Kind() == reflect.Ptr {
			in.Set(reflect.New(in.Type().Elem())) // the program's own struct: the library must keep it
			in = in.Elem()
		}
		for _, o := range inl {
			f := in.FieldByName(o.field)
			b.optVal[o.idx-1] = f
			b.opts[o.idx-1] = o
			b.preset(o, f)
		}
	}
	pl := v.FieldByName("Plain")
	pl.SetString(sentinel)
	b.plains = append(b.plains, pl)
	b.pptrs = append(b.pptrs, v.FieldByName("PlainPtr"))
	for i, sg := range g.Groups {
		f := v.FieldByName("G" + itoa(i))
		if sg.Ptr {
			// leave nil half of the time? go-flags allocates when nil; allocate here so that accessors stay valid
			f.Set(reflect.New(f.Type().Elem()))
			f = f.Elem()
		}
		b.bind(f, sg, nil)
	}
	if c != nil {
		for i, sc := range c.Cmds {
			if sc.Style != "tag" {
				continue
			}
			f := v.FieldByName("C" + itoa(i))
			b.bind(f, sc.Own, sc)
		}
		if len(c.Args) > 0 {
			pv := v.FieldByName("Pos")
			pv2 := v.FieldByName("Pos2")
			for i, a := range c.Args {
				var f reflect.Value
				if pv2.IsValid() && i >= pv.NumField() {
					f = pv2.Field(i - pv.NumField())
				} else {
					f = pv.Field(i)
				}
				b.args[c.idx-1] = append(b.args[c.idx-1], f)
				b.argN[c.idx-1] = append(b.argN[c.idx-1], a)
				for _, t := range a.Init {
					setText(f, t, 10)
				}
			}
		}
	}
}

// setText stores a text into a field by the harness' own conversion (used for presets only).
func setText(f reflect.Value, t string, base int) {
	if base == 0 {
		base = 10
	}
	switch f.Kind() {
	case reflect.Slice:
		e := reflect.New(f.Type().Elem()).Elem()
		setText(e, t, base)
		f.Set(reflect.Append(f, e))
	case reflect.Map:
		k, v := splitKV(t)
		if f.IsNil() {
			f.Set(reflect.MakeMap(f.Type()))
		}
		e := reflect.New(f.Type().Elem()).Elem()
		setText(e, v, base)
		ke := reflect.New(f.Type().Key()).Elem()
		setText(ke, k, base)
		f.SetMapIndex(ke, e)
	case reflect.Ptr:
		f.Set(reflect.New(f.Type().Elem()))
		setText(f.Elem(), t, base)
	case reflect.String:
		f.SetString(t)
	case reflect.Bool:
		f.SetBool(t == "true")
	case reflect.Int, reflect.Int8, reflect.Int16, reflect.Int32, reflect.Int64:
		if f.Type() == typeByName["duration"] {
			d, _ := time.ParseDuration(t)
			f.SetInt(int64(d))
			return
		}
		n, _ := strconv.ParseInt(t, base, 64)
		f.SetInt(n)
	case reflect.Uint, reflect.Uint8, reflect.Uint16, reflect.Uint32, reflect.Uint64:
		n, _ := strconv.ParseUint(t, base, 64)
		f.SetUint(n)
	case reflect.Float32, reflect.Float64:
		n, _ := strconv.ParseFloat(t, 64)
		f.SetFloat(n)
	case reflect.Struct:
		if f.Type() == typeByName["um"] {
			f.Set(reflect.ValueOf(UM{V: t}))
		}
	}
}

func (b *Built) preset(o *OptNode, f reflect.Value) {
	switch o.Kind {
	case "func0", "func1":
		idx := o.idx
		failOn := o.FailOn
		param := o.Param
		ft := f.Type()
		var seenPtr []uintptr
		fn := reflect.MakeFunc(ft, func(in []reflect.Value) []reflect.Value {
			ev := event{"k": "call", "o": idx, "has": len(in) == 1, "arg": S{}}
			fail := false
			if len(in) == 1 {
				// a composite parameter is rendered whole: every call gets a value of its own holding exactly this occurrence
				switch param {
				case "slice":
					t := "["
					for i := 0; i < in[0].Len(); i++ {
						if i > 0 {
							t += "\x1f"
						}
						t += atomText(in[0].Index(i))
					}
					ev["arg"] = toS(t + "]")
				case "map":
					keys := in[0].MapKeys()
					sort.Slice(keys, func(i, j int) bool { return keys[i].String() < keys[j].String() })
					t := "{"
					for i, k := range keys {
						if i > 0 {
							t += "\x1f"
						}
						t += k.String() + ":" + atomText(in[0].MapIndex(k))
					}
					ev["arg"] = toS(t + "}")
				case "ptr":
					t := "&"
					if in[0].IsNil() {
						t = "&<nil>"
					} else {
						t += atomText(in[0].Elem())
						for _, p := range seenPtr {
							if p == in[0].Pointer() {
								t += "!reused"
							}
						}
						seenPtr = append(seenPtr, in[0].Pointer())
					}
					ev["arg"] = toS(t)
				default:
					ev["arg"] = toS(atomText(in[0]))
				}
			}
			b.log.add(ev)
			if failOn != nil {
				if len(in) == 0 {
					fail = *failOn == ""
				} else if param == "" {
					fail = atomText(in[0]) == *failOn
				}
			}
			if ft.NumOut() == 1 && ft.Out(0) != errType {
				return []reflect.Value{reflect.Zero(ft.Out(0))} // a nil *flags.Error: not a result of type error, so the library ignores it
			}
			if ft.NumOut() == 1 {
				if fail {
					return []reflect.Value{reflect.ValueOf(&errCallback).Elem()}
				}
				return []reflect.Value{reflect.Zero(errType)}
			}
			return nil
		})
		f.Set(fn)
	default:
		if !b.presets {
			return
		}
		for _, t := range o.Init {
			setText(f, string(t), 10) // presets are canonical (decimal) texts
		}
		if f.Kind() == reflect.Slice && f.Len() > 0 && o.Kind == "slice" {
			al := sliceAlias{alias: f.Slice(0, f.Len())}
			for i := 0; i < f.Len(); i++ {
				al.want = append(al.want, atomText(f.Index(i)))
			}
			b.aliases = append(b.aliases, al)
		}
	}
}

// AttachLate adds the deferred top-level groups to the parser (Parser.AddGroup on a parser that has already parsed).
func (b *Built) AttachLate() {
	for _, f := range b.late {
		if err := f(); err != nil && b.err == nil {
			b.err = err
		}
	}
	b.late = nil
	b.applyFieldMarks()
}

// Build realises the tree.  Setup errors are recorded in b.err.
func Build(t *Tree, popts flags.Options) *Built { return BuildOpt(t, popts, true) }

// BuildOpt: presets=false leaves every field at its zero value (a fresh parser over the same declaration).
func BuildOpt(t *Tree, popts flags.Options, presets bool) (b *Built) {
	return buildWith(t, popts, presets, false)
}

// buildWith: deferLate keeps the top-level groups marked Late off the parser until AttachLate is called.
func buildWith(t *Tree, popts flags.Options, presets bool, deferLate bool) (b *Built) {
	d := Flatten(t)
	b = &Built{tree: t, decl: d, log: &evlog{}, presets: presets}
	b.opts = make([]*OptNode, len(d.Opts))
	b.optVal = make([]reflect.Value, len(d.Opts))
	b.args = make([][]reflect.Value, len(d.Cmds))
	b.argN = make([][]*ArgNode, len(d.Cmds))
	b.cmds = make([]*flags.Command, len(d.Cmds))
	b.cnodes = make([]*CmdNode, len(d.Cmds))
	b.execs = make([]*ExecCmd, len(d.Cmds))

	root := t.Root
	b.cnodes[0] = root
	var p *flags.Parser
	// top-level groups of the parser
	for i, g := range root.Extra {
		var cn *CmdNode
		if i == 0 {
			cn = root
		}
		st := b.structFor(g, cn)
		pv := reflect.New(st)
		b.bind(pv.Elem(), g, cn)
		if i == 0 && g.Desc == "Application Options" && g.Ns == "" && g.EnvNs == "" && !g.Hidden {
			p = flags.NewParser(pv.Interface(), popts)
		} else {
			if p == nil {
				p = flags.NewNamedParser("app", popts)
			}
			g, pv := g, pv
			attach := func() error {
				grp, err := b.p.AddGroup(g.Desc, "", pv.Interface())
				if err != nil {
					return err
				}
				grp.Namespace = g.Ns
				grp.EnvNamespace = g.EnvNs
				grp.Hidden = g.Hidden
				return nil
			}
			if deferLate && g.Late {
				b.late = append(b.late, attach)
				continue
			}
			b.p = p
			if err := attach(); err != nil {
				b.err = err
				return b
			}
		}
	}
	if p == nil {
		p = flags.NewNamedParser("app", popts)
	}
	p.Name = "app"
	p.ShortDescription = root.Desc
	p.LongDescription = root.LongDesc
	p.SubcommandsOptional = root.SubOpt
	p.NamespaceDelimiter = t.NsDelim
	p.EnvNamespaceDelimiter = t.EnvDelim
	b.p = p
	b.cmds[0] = p.Command
	if err := b.addProgCmds(p.Command, root); err != nil {
		b.err = err
	}
	b.applyFieldMarks()
	return b
}

// splitInline: the options declared as direct fields and those declared inside the untagged struct field.
func splitInline(g *GroupNode) (direct, inl []*OptNode) {
	if g.Inline == "" || g.InlineFrom < 0 || g.InlineFrom >= len(g.Opts) {
		return g.Opts, nil
	}
	return g.Opts[:g.InlineFrom], g.Opts[g.InlineFrom:]
}

// nodeKey / optKey identify an option on both sides.  Go field names may repeat across nested groups (FieldAlias); such
// an option carries an extra tag key vid:"<idx>" that the library ignores.
func nodeKey(o *OptNode) string {
	if o.FieldAlias != "" {
		return "vid:" + itoa(o.idx)
	}
	return o.field
}

func optKey(fo *flags.Option) string {
	if v := fo.Field().Tag.Get("vid"); v != "" {
		return "vid:" + v
	}
	return fo.Field().Name
}

// applyFieldMarks sets what a declaration says through public fields rather than tags (Option.Required).
func (b *Built) applyFieldMarks() {
	if b.p == nil {
		return
	}
	byKey := map[string]*OptNode{}
	for _, o := range b.opts {
		if o != nil {
			byKey[nodeKey(o)] = o
		}
	}
	eachOption(b.p.Command, func(fo *flags.Option) {
		if o := byKey[optKey(fo)]; o != nil && o.ReqField && o.Required {
			fo.Required = true
		}
	})
}

// addProgCmds adds the programmatic sub-commands of c (tag-declared ones
// already exist) and binds command handles.
func (b *Built) addProgCmds(fc *flags.Command, c *CmdNode) error {
	for _, sc := range c.Cmds {
		switch sc.Style {
		case "tag":
			sub := fc.Find(sc.Name)
			if sub == nil {
				return fmt.Errorf("harness: tag command %q not found after scan", sc.Name)
			}
			b.cmds[sc.idx-1] = sub
			b.cnodes[sc.idx-1] = sc
			if err := b.addExtras(sub, sc, false); err != nil {
				return err
			}
			if err := b.addProgCmds(sub, sc); err != nil {
				return err
			}
		case "prog":
			own := sc.Own
			if own == nil {
				own = &GroupNode{}
				sc.Own = own
			}
			st := b.structFor(own, sc)
			pv := reflect.New(st)
			b.bind(pv.Elem(), own, sc)
			sub, err := fc.AddCommand(sc.Name, sc.Desc, sc.LongDesc, pv.Interface())
			if err != nil {
				return err
			}
			b.finishCmd(sub, sc)
			if err := b.addExtras(sub, sc, false); err != nil {
				return err
			}
			if err := b.addProgCmds(sub, sc); err != nil {
				return err
			}
		case "exec":
			ec := &ExecCmd{id: sc.idx, log: b.log, via: &b.via}
			b.execs[sc.idx-1] = ec
			sub, err := fc.AddCommand(sc.Name, sc.Desc, sc.LongDesc, ec)
			if err != nil {
				return err
			}
			b.finishCmd(sub, sc)
			if err := b.addExtras(sub, sc, true); err != nil {
				return err
			}
			if err := b.addProgCmds(sub, sc); err != nil {
				return err
			}
		default:
			return fmt.Errorf("harness: bad style %q", sc.Style)
		}
	}
	return nil
}

func (b *Built) finishCmd(sub *flags.Command, sc *CmdNode) {
	sub.Aliases = append([]string{}, sc.Aliases...)
	sub.SubcommandsOptional = sc.SubOpt
	sub.Hidden = sc.Hidden
	b.cmds[sc.idx-1] = sub
	b.cnodes[sc.idx-1] = sc
}

func (b *Built) addExtras(sub *flags.Command, sc *CmdNode, first bool) error {
	for i, g := range sc.Extra {
		var cn *CmdNode
		if first && i == 0 {
			cn = sc // positional args and tag-declared children of an exec command live in its first added group
		}
		st := b.structFor(g, cn)
		pv := reflect.New(st)
		b.bind(pv.Elem(), g, cn)
		grp, err := sub.AddGroup(g.Desc, "", pv.Interface())
		if err != nil {
			return err
		}
		grp.Namespace = g.Ns
		grp.EnvNamespace = g.EnvNs
		grp.Hidden = g.Hidden
	}
	return nil
}
