package main

// Family "help" (C16, C17, part of C15): the built-in help (WriteHelp, or the text inside ErrHelp) and the man page
// for a declaration, an active command chain and a terminal width (fd 0 is a pty whose window size is set per scenario).

import (
	"bytes"
	"encoding/json"
	"fmt"
	"math/rand"
	"os"
	"strings"
	"syscall"
	"unsafe"

	flags "github.com/jessevdk/go-flags"
)

type HelpScn struct {
	Fam      string   `json:"fam"`
	ID       int      `json:"id"`
	Decl     int      `json:"decl"`
	POpts    []string `json:"popts"`
	Words    []S      `json:"words"`    // command words selecting the active chain
	PreWords []S      `json:"preWords"` // non-empty: the same parser first parses these words (another chain); the help is about Words alone
	Width    int      `json:"width"`
	Kind     string   `json:"kind"` // help | errhelp | man | rehelp (help written a second time on the same parser after the declaration and the terminal changed)
	Repeat   int      `json:"repeat"`
	Tags     []string `json:"tags"`
	Obs      *HelpObs `json:"obs,omitempty"`
}

type HelpObs struct {
	Panic    bool   `json:"panic"`
	Timeout  bool   `json:"timeout"`
	PanicMsg S      `json:"panicMsg"`
	Lines    []S    `json:"lines"`
	Chain    []int  `json:"chain"`
	ErrType  string `json:"errType"`
	Cols     int    `json:"cols"` // what the terminal reports
	Distinct int    `json:"distinct"`
}

var ptyMaster, ptySlave *os.File

func initPty() {
	m, err := os.OpenFile("/dev/ptmx", os.O_RDWR|syscall.O_NOCTTY, 0)
	if err != nil {
		return
	}
	var unlock int32
	syscall.Syscall(syscall.SYS_IOCTL, m.Fd(), syscall.TIOCSPTLCK, uintptr(unsafe.Pointer(&unlock)))
	var n uint32
	if _, _, e := syscall.Syscall(syscall.SYS_IOCTL, m.Fd(), syscall.TIOCGPTN, uintptr(unsafe.Pointer(&n))); e != 0 {
		return
	}
	s, err := os.OpenFile(fmt.Sprintf("/dev/pts/%d", n), os.O_RDWR|syscall.O_NOCTTY, 0)
	if err != nil {
		return
	}
	syscall.Dup2(int(s.Fd()), 0)
	ptyMaster, ptySlave = m, s
}

type winsize struct{ Row, Col, X, Y uint16 }

func setWidth(w int) bool {
	if ptySlave == nil {
		return false
	}
	ws := winsize{Row: 24, Col: uint16(w)}
	_, _, e := syscall.Syscall(syscall.SYS_IOCTL, 0, syscall.TIOCSWINSZ, uintptr(unsafe.Pointer(&ws)))
	return e == 0
}

func getWidth() int {
	var ws winsize
	if _, _, e := syscall.Syscall(syscall.SYS_IOCTL, 0, syscall.TIOCGWINSZ, uintptr(unsafe.Pointer(&ws))); e != 0 {
		return -1
	}
	return int(ws.Col)
}

func runHelpOnce(t *Tree, sc *HelpScn) *HelpObs {
	obs := &HelpObs{Lines: []S{}, Chain: []int{}}
	b := Build(t, poptsOf(sc.POpts))
	if b.err != nil {
		obs.Panic = true
		obs.PanicMsg = toS("setup: " + b.err.Error())
		return obs
	}
	if ptySlave == nil {
		initPty()
	}
	setWidth(sc.Width)
	obs.Cols = getWidth()
	words := make([]string, len(sc.Words))
	for i, w := range sc.Words {
		words[i] = w.String()
	}
	var text string
	func() {
		defer func() {
			if r := recover(); r != nil {
				obs.Panic = true
				obs.PanicMsg = toS(fmt.Sprint(r))
			}
		}()
		so, se := os.Stdout, os.Stderr
		os.Stdout, os.Stderr = capOut, capErr
		defer func() { os.Stdout, os.Stderr = so, se }()
		if len(sc.PreWords) > 0 {
			pre := make([]string, len(sc.PreWords))
			for i, w := range sc.PreWords {
				pre[i] = w.String()
			}
			b.p.ParseArgs(pre)
		}
		switch sc.Kind {
		case "errhelp":
			_, err := b.p.ParseArgs(append(append([]string{}, words...), "--help"))
			o := emptyObs()
			classifyErr(err, o)
			obs.ErrType = o.ErrType
			if err != nil {
				text = err.Error()
				if !strings.HasSuffix(text, "\n") {
					text += "\n"
				}
			}
		case "man":
			b.p.ParseArgs(words)
			os.Setenv("SOURCE_DATE_EPOCH", "0")
			var buf bytes.Buffer
			b.p.WriteManPage(&buf)
			os.Unsetenv("SOURCE_DATE_EPOCH")
			text = buf.String()
		case "rehelp":
			// the help text is a function of the parser as it is NOW: written once with every second option hidden and
			// another terminal width, then written again after the options are visible again and the width is the scenario's
			b.p.ParseArgs(words)
			var flipped []*flags.Option
			k := 0
			eachOption(b.p.Command, func(o *flags.Option) {
				if k%2 == 0 && !o.Hidden {
					o.Hidden = true
					flipped = append(flipped, o)
				}
				k++
			})
			setWidth(sc.Width/2 + 7)
			var first bytes.Buffer
			func() {
				defer func() { recover() }() // a crash of the first call is the plain kind's finding
				b.p.WriteHelp(&first)
			}()
			for _, o := range flipped {
				o.Hidden = false
			}
			setWidth(sc.Width)
			var buf bytes.Buffer
			b.p.WriteHelp(&buf)
			text = buf.String()
		default:
			b.p.ParseArgs(words)
			var buf bytes.Buffer
			b.p.WriteHelp(&buf)
			text = buf.String()
		}
	}()
	if obs.Panic {
		return obs
	}
	obs.Lines = splitLinesS(text)
	c := b.p.Command
	for c != nil {
		id := 0
		for i, fc := range b.cmds {
			if fc == c {
				id = i + 1
			}
		}
		obs.Chain = append(obs.Chain, id)
		c = c.Active
	}
	return obs
}

func eachOption(c *flags.Command, f func(o *flags.Option)) {
	var walk func(g *flags.Group)
	walk = func(g *flags.Group) {
		for _, o := range g.Options() {
			f(o)
		}
		for _, sg := range g.Groups() {
			walk(sg)
		}
	}
	walk(c.Group)
	for _, sc := range c.Commands() {
		eachOption(sc, f)
	}
}

func init() {
	families["help"] = family{
		run: func(trees []*Tree, line []byte) any {
			sc := &HelpScn{}
			if err := json.Unmarshal(line, sc); err != nil {
				die(2, "help scenario: %v", err)
			}
			if sc.Decl < 1 || sc.Decl > len(trees) {
				die(2, "help scenario %d refers to unknown declaration %d", sc.ID, sc.Decl)
			}
			t := trees[sc.Decl-1]
			sc.Obs = runHelpOnce(t, sc)
			sc.Obs.Distinct = 1
			if sc.Repeat > 1 {
				first, _ := json.Marshal(sc.Obs.Lines)
				seen := map[string]bool{string(first): true}
				for i := 1; i < sc.Repeat; i++ {
					j, _ := json.Marshal(runHelpOnce(t, sc).Lines)
					seen[string(j)] = true
				}
				sc.Obs.Distinct = len(seen)
			}
			return sc
		},
		crash: func(line []byte, timeout bool, msg string) any {
			sc := &HelpScn{}
			json.Unmarshal(line, sc)
			sc.Obs = &HelpObs{Panic: !timeout, Timeout: timeout, PanicMsg: toS(msg), Lines: []S{}, Chain: []int{}}
			return sc
		},
	}
}

// ---- generation: decorate a random tree with what help shows

var markerN = 0

func marker(r *rand.Rand, kind string) string {
	markerN++
	return kind + itoa(markerN)
}

var helpWords = []string{"100%", "%d", "lorem", "ipsum", "dolor", "sit", "amet", "consectetur", "adipiscing", "elit", "naïve", "café", "世界", "Привет", "a", "I/O", "supercalifragilisticexpialidocious", "x-y", "e.g.", "€100", "😀",
	// white space other than the blank: the text is wrapped at blanks only, but trimmed of any white space
	"non\u00a0breaking", "全角\u3000空白", "x\u00a0"}

func helpDesc(r *rand.Rand, mk string) string {
	n := r.Intn(14)
	ws := []string{mk}
	for i := 0; i < n; i++ {
		ws = append(ws, pick(r, helpWords))
	}
	if chance(r, 0.1) {
		ws = append(ws, strings.Repeat("w", 15+r.Intn(60)))
	}
	if chance(r, 0.12) { // a long word without blanks whose characters have one, two, three and four bytes (forced breaks fall inside it)
		n := 8 + r.Intn(70)
		var sb strings.Builder
		for i := 0; i < n; i++ {
			sb.WriteString(pick(r, []string{"w", "w", "a", "é", "世", "ж", "😀", "界"}))
		}
		ws = append(ws, sb.String())
	}
	s := strings.Join(ws, " ")
	if chance(r, 0.08) && n > 2 {
		k := len(ws) / 2
		s = strings.Join(ws[:k], " ") + "\n" + strings.Join(ws[k:], " ")
	}
	return s
}

func decorateForHelp(r *rand.Rand, t *Tree) {
	markerN = 0
	var walkG func(g *GroupNode)
	walkG = func(g *GroupNode) {
		for _, o := range g.Opts {
			if chance(r, 0.8) {
				o.Desc = helpDesc(r, marker(r, "od"))
			}
			if canArgNode(o) && chance(r, 0.4) {
				o.ValueName = pick(r, []string{"FILE", "N", "значение", "VAL-UE", "v"})
			}
			if len(o.Defaults) > 0 && chance(r, 0.3) {
				o.Mask = pick(r, []string{"-", "****", "masked" + itoa(markerN)})
				// the real default becomes a unique secret that must not appear
				if o.Kind == "scalar" && o.VType == "string" && len(o.Choices) == 0 {
					o.Defaults = []string{"SECRET" + itoa(markerN)}
				}
			}
			o.Init = nil
			if chance(r, 0.5) && o.Kind == "map" && o.VType == "string" {
				if o.KType == "" {
					o.Init = txts("kb:v2", "ka:v1", "kc:v3", "kd:v4")
				} else {
					o.Init = txts("9:v2", "10:v1", "100:v3", "2:v4") // shown ordered by the rendered key: 10, 100, 2, 9
				}
			}
			if chance(r, 0.05) && o.Kind == "scalar" && o.VType == "string" && len(o.Choices) == 0 && !o.Validator {
				o.Init = txts("preset" + itoa(markerN))
			}
			// values the program stored beforehand are shown as the default when there is no default tag: contents of
			// length one, several elements, the zero value (not shown)
			if len(o.Choices) == 0 && !o.Validator && chance(r, 0.15) {
				switch {
				case o.Kind == "scalar" && o.VType == "string":
					o.Init = txts(pick(r, []string{",", "p", "é", "x y"}))
				case o.Kind == "scalar" && o.VType == "int":
					o.Init = txts(pick(r, []string{"41", "0", "-7", "5"}))
				case o.Kind == "slice" && o.VType == "string":
					o.Init = txts([][]string{{"blue"}, {"a", "b"}, {","}, {"x y", "z", "w"}}[r.Intn(4)]...)
				case o.Kind == "slice" && o.VType == "int":
					o.Init = txts([][]string{{"7"}, {"1", "2"}, {"0"}}[r.Intn(3)]...)
				}
			}
		}
		for _, sg := range g.Groups {
			walkG(sg)
		}
	}
	var walkC func(c *CmdNode)
	walkC = func(c *CmdNode) {
		if c.Own != nil {
			walkG(c.Own)
		}
		for _, g := range c.Extra {
			walkG(g)
		}
		if c.Style == "root" {
			c.Desc = ""
			if chance(r, 0.3) {
				c.Desc = pick(r, []string{"an application", "does `it' all", "naïve 世界"})
			}
		}
		if c.Style != "root" {
			c.Desc = ""
			if chance(r, 0.7) {
				c.Desc = "cd" + itoa(markerN) + " " + pick(r, helpWords)
				markerN++
			}
		}
		c.LongDesc = ""
		if chance(r, 0.3) {
			c.LongDesc = pick(r, []string{"The " + c.Name + " command does `things' to the named items.", "long text " + helpDesc(r, "ld"), "a `bold' word and a lone ` quote", "back\\slash and\nsecond line", "short"})
		}
		for _, a := range c.Args {
			a.Desc = ""
			if chance(r, 0.6) {
				a.Desc = helpDesc(r, marker(r, "ad"))
			}
		}
		for _, sc := range c.Cmds {
			walkC(sc)
		}
	}
	walkC(t.Root)
}

func genHelp(r *rand.Rand, t *Tree, id int) *HelpScn {
	sc := &HelpScn{Fam: "help", ID: id, Decl: t.ID, POpts: []string{}, Tags: []string{}, Repeat: 1}
	if chance(r, 0.7) {
		sc.POpts = append(sc.POpts, "HelpFlag")
	}
	sc.Kind = pick(r, []string{"help", "help", "help", "errhelp", "man", "rehelp"})
	if sc.Kind == "errhelp" {
		sc.POpts = []string{"HelpFlag"}
	}
	// a chain of command words (names or aliases), possibly none;
	chainWords := func() []string {
		c := t.Root
		var words []string
		for len(c.Cmds) > 0 && chance(r, 0.7) {
			// positionals of a command on the way are filled first (one word each); behind a slice positional no command is reachable
			rest := false
			for _, a := range c.Args {
				rest = rest || a.Slice
			}
			if rest {
				break
			}
			for range c.Args {
				words = append(words, pick(r, []string{"1", "1", "7", "w"}))
			}
			sub := pick(r, c.Cmds)
			name := sub.Name
			if len(sub.Aliases) > 0 && chance(r, 0.3) {
				name = pick(r, sub.Aliases)
			}
			words = append(words, name)
			c = sub
		}
		return words
	}
	words := chainWords()
	sc.PreWords = []S{}
	if chance(r, 0.15) {
		sc.PreWords = toSs(chainWords()) // an earlier parse of the same parser, along another chain
	}
	sc.Words = toSs(words)
	sc.Width = pick(r, []int{0, 1, 5, 10, 20, 30, 40, 50, 60, 72, 80, 100, 120, 200, 300, 20 + r.Intn(100), 1 + r.Intn(300)})
	return sc
}
