module verif/harness

go 1.21

require github.com/jessevdk/go-flags v0.0.0

require golang.org/x/sys v0.0.0-20210320140829-1e4c9ba3b0c4 // indirect

replace github.com/jessevdk/go-flags => /repo
