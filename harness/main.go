package main

import (
	"bufio"
	"bytes"
	"encoding/json"
	"flag"
	"fmt"
	"math/rand"
	"os"
	"os/exec"
	"sync"
	"sync/atomic"
	"time"

	flags "github.com/jessevdk/go-flags"
)

func die(code int, f string, a ...any) {
	fmt.Fprintf(os.Stderr, "vh: "+f+"\n", a...)
	os.Exit(code)
}

func marshalLine(v any) []byte {
	b, err := json.Marshal(v)
	if err != nil {
		die(2, "marshal: %v", err)
	}
	// TLC's Json module cannot read null: absent lists are []
	b = bytes.ReplaceAll(b, []byte("null"), []byte("[]"))
	return append(b, '\n')
}

func readLines(path string, f func(line []byte)) {
	fh, err := os.Open(path)
	if err != nil {
		die(2, "open %s: %v", path, err)
	}
	defer fh.Close()
	rd := bufio.NewReaderSize(fh, 1<<20)
	for {
		line, err := rd.ReadBytes('\n')
		if len(bytes.TrimSpace(line)) > 0 {
			f(line)
		}
		if err != nil {
			break
		}
	}
}

func loadTrees(path string) []*Tree {
	var ts []*Tree
	readLines(path, func(line []byte) {
		t := &Tree{}
		if err := json.Unmarshal(line, t); err != nil {
			die(2, "tree: %v", err)
		}
		ts = append(ts, t)
	})
	return ts
}

func loadScenarios(path string) []*Scenario {
	var ss []*Scenario
	readLines(path, func(line []byte) {
		s := &Scenario{}
		if err := json.Unmarshal(line, s); err != nil {
			die(2, "scenario: %v: %s", err, line)
		}
		ss = append(ss, s)
	})
	return ss
}

// treeOK: the library accepts the declaration (setup succeeds).
// dropReasons counts why generated trees were not used (printed by the generators; a library that rejects or mis-reads
// most of what is generated must not pass for lack of input).
var dropReasons = map[string]int{}

// treeOK: the generated declaration is one the library accepts.  A tree is dropped only for a setup error the generator
// itself may have caused (two options of one scope drawing the same name from the pools).  Anything else the library
// does with the declaration - another setup error, a panic, options held in another order or number than declared -
// is kept: the scenarios over it are run and judged like any other.
func treeOK(t *Tree) bool {
	ok := true
	func() {
		defer func() {
			if r := recover(); r != nil {
				dropReasons["kept:panic"]++
			}
		}()
		b := Build(t, flags.None)
		if b.err != nil {
			if fe, isF := b.err.(*flags.Error); isF && fe.Type == flags.ErrDuplicatedFlag {
				dropReasons["dropped:duplicate"]++
				ok = false
			} else {
				dropReasons["kept:setup-error:"+b.err.Error()]++
			}
			return
		}
		if _, err := b.p.ParseArgs([]string{"--"}); err != nil {
			if fe, isF := err.(*flags.Error); isF {
				switch fe.Type {
				case flags.ErrDuplicatedFlag:
					dropReasons["dropped:duplicate"]++
					ok = false
					return
				case flags.ErrTag, flags.ErrInvalidTag, flags.ErrShortNameTooLong:
					dropReasons["kept:setup-error"]++
					return
				}
			}
		}
		if !sanityOrder(b) {
			dropReasons["kept:order"]++
		}
	}()
	return ok
}

func reportDrops(kept int) {
	if len(dropReasons) > 0 {
		fmt.Fprintf(os.Stderr, "generator: %d trees used; not used, or used although unusual: %v\n", kept, dropReasons)
	}
	if d := dropReasons["dropped:duplicate"]; d > 3*kept+50 {
		die(2, "the library rejects most generated declarations as duplicates (%d of %d): no input to judge with", d, d+kept)
	}
}

// sanityOrder: the flat numbering equals the order in which the library holds options and commands.
func sanityOrder(b *Built) bool {
	var fields []string
	var cmds []string
	var walkG func(g *flags.Group)
	walkG = func(g *flags.Group) {
		for _, o := range g.Options() {
			fields = append(fields, o.Field().Name)
		}
		for _, sg := range g.Groups() {
			walkG(sg)
		}
	}
	var walkC func(c *flags.Command)
	walkC = func(c *flags.Command) {
		cmds = append(cmds, c.Name)
		walkG(c.Group)
		for _, sc := range c.Commands() {
			walkC(sc)
		}
	}
	walkC(b.p.Command)
	if len(fields) != len(b.decl.Opts) || len(cmds) != len(b.decl.Cmds) {
		return false
	}
	for i, f := range fields {
		if f != b.decl.Opts[i].Field.String() {
			return false
		}
	}
	for i, c := range cmds {
		if i > 0 && c != b.decl.Cmds[i].Name.String() {
			return false
		}
	}
	return true
}

func cmdGen(args []string) {
	fs := flag.NewFlagSet("gen", flag.ExitOnError)
	seed := fs.Int64("seed", 1, "")
	ntrees := fs.Int("ntrees", 50, "")
	per := fs.Int("per", 20, "")
	repeat := fs.Int("repeat", 1, "")
	catalog := fs.String("catalog", "", "catalogue of hand-written trees (ndjson) placed first")
	outTrees := fs.String("trees", "trees.ndjson", "")
	outDecls := fs.String("decls", "decls.ndjson", "")
	outScen := fs.String("scen", "scen.ndjson", "")
	fs.Parse(args)
	r := rand.New(rand.NewSource(*seed))
	var trees []*Tree
	if *catalog != "" {
		trees = loadTrees(*catalog)
	}
	for len(trees) < *ntrees {
		t := genTree(r, len(trees)+1)
		decorateInline(r, t, 0.1)
		Flatten(t)
		if !treeOK(t) {
			continue
		}
		trees = append(trees, t)
	}
	reportDrops(len(trees))
	ft, _ := os.Create(*outTrees)
	fd, _ := os.Create(*outDecls)
	fsn, _ := os.Create(*outScen)
	wt, wd, ws := bufio.NewWriter(ft), bufio.NewWriter(fd), bufio.NewWriter(fsn)
	id := 0
	for i, t := range trees {
		t.ID = i + 1
		d := Flatten(t)
		wt.Write(marshalLine(t))
		wd.Write(marshalLine(d))
		for k := 0; k < *per; k++ {
			id++
			sc := genScenario(r, t, id)
			sc.Repeat = *repeat
			ws.Write(marshalLine(sc))
		}
	}
	wt.Flush()
	wd.Flush()
	ws.Flush()
}

// cmdDecls flattens a tree file (e.g. the catalogue) into the declaration file TLC reads.
func cmdDecls(args []string) {
	fs := flag.NewFlagSet("decls", flag.ExitOnError)
	in := fs.String("trees", "", "")
	out := fs.String("decls", "decls.ndjson", "")
	fs.Parse(args)
	trees := loadTrees(*in)
	fd, _ := os.Create(*out)
	wd := bufio.NewWriter(fd)
	for i, t := range trees {
		if t.ID != i+1 {
			die(2, "tree ids must be 1..n in file order (line %d has id %d)", i+1, t.ID)
		}
		Flatten(t)
		if !treeOK(t) {
			die(2, "catalogue tree %d is not accepted by the library or its numbering disagrees with the library's order", t.ID)
		}
		wd.Write(marshalLine(Flatten(t)))
	}
	wd.Flush()
}

// family: how one kind of scenario line is run against the real library, and what is recorded
// when the process running it died or hung.
type family struct {
	run   func(trees []*Tree, line []byte) any
	crash func(line []byte, timeout bool, msg string) any
}

var families = map[string]family{}

func famOf(line []byte) family {
	var h struct {
		Fam string `json:"fam"`
	}
	json.Unmarshal(line, &h)
	if h.Fam == "" {
		h.Fam = "argparse"
	}
	f, ok := families[h.Fam]
	if !ok {
		die(2, "unknown family %q", h.Fam)
	}
	return f
}

func emptyObs() *Obs {
	return &Obs{ErrNames: []S{}, ErrList: []S{}, Values: [][]any{}, Pos: [][][]S{}, Retargs: []S{}, Chain: []int{}, Events: []event{}, IsSet: []bool{}, IsSetDef: []bool{}}
}

func init() {
	families["argparse"] = family{
		run: func(trees []*Tree, line []byte) any {
			sc := &Scenario{}
			if err := json.Unmarshal(line, sc); err != nil {
				die(2, "scenario: %v: %s", err, line)
			}
			if sc.Decl < 1 || sc.Decl > len(trees) {
				die(2, "scenario %d refers to unknown declaration %d", sc.ID, sc.Decl)
			}
			t := trees[sc.Decl-1]
			sc.Obs = runArgparse(t, sc, sc.Argv)
			sc.Obs.Distinct = 1
			if sc.Repeat > 1 {
				first, _ := json.Marshal(sc.Obs)
				seen := map[string]bool{string(first): true}
				for i := 1; i < sc.Repeat; i++ {
					o := runArgparse(t, sc, sc.Argv)
					o.Distinct = 1
					j, _ := json.Marshal(o)
					seen[string(j)] = true
				}
				sc.Obs.Distinct = len(seen)
			}
			if sc.Alt != nil {
				sc.ObsAlt = runArgparse(t, sc, sc.Alt)
			}
			return sc
		},
		crash: func(line []byte, timeout bool, msg string) any {
			sc := &Scenario{}
			json.Unmarshal(line, sc)
			sc.Obs = emptyObs()
			if timeout {
				sc.Obs.Timeout = true
				sc.Obs.ErrType = "timeout"
			} else {
				sc.Obs.Panic = true
				sc.Obs.ErrType = "panic"
				sc.Obs.PanicMsg = toS(msg)
			}
			if sc.Alt != nil {
				sc.ObsAlt = sc.Obs
			}
			return sc
		},
	}
}

func loadLines(path string) [][]byte {
	var ls [][]byte
	readLines(path, func(line []byte) { ls = append(ls, append([]byte{}, bytes.TrimSpace(line)...)) })
	return ls
}

func cmdWorker(args []string) {
	fs := flag.NewFlagSet("worker", flag.ExitOnError)
	treesF := fs.String("trees", "", "")
	scenF := fs.String("scen", "", "")
	from := fs.Int("from", 0, "")
	to := fs.Int("to", 0, "")
	out := fs.String("out", "", "")
	fs.Parse(args)
	var trees []*Tree
	if *treesF != "" {
		trees = loadTrees(*treesF)
	}
	for _, t := range trees {
		Flatten(t)
	}
	// only this worker's share of the scenarios is kept in memory
	var scs [][]byte
	k := 0
	readLines(*scenF, func(line []byte) {
		if k >= *from && k < *to {
			scs = append(scs, append([]byte{}, bytes.TrimSpace(line)...))
		}
		k++
	})
	fo, err := os.OpenFile(*out, os.O_APPEND|os.O_CREATE|os.O_WRONLY, 0o644)
	if err != nil {
		die(2, "%v", err)
	}
	initCapture(os.TempDir())
	for _, sc := range scs {
		fo.Write(marshalLine(famOf(sc).run(trees, sc)))
	}
	fo.Close()
}

func countLines(path string) int {
	b, err := os.ReadFile(path)
	if err != nil {
		return 0
	}
	return bytes.Count(b, []byte("\n"))
}

// cmdRun shards the scenarios over worker processes; a worker that dies or
// stalls is recorded against the scenario it was running and restarted after it.
var confirmedHangs int32

func cmdRun(args []string) {
	fs := flag.NewFlagSet("run", flag.ExitOnError)
	treesF := fs.String("trees", "", "")
	scenF := fs.String("scen", "", "")
	out := fs.String("out", "", "")
	workers := fs.Int("workers", 8, "")
	stall := fs.Duration("stall", 20*time.Second, "")
	fs.Parse(args)
	scs := loadLines(*scenF)
	n := len(scs)
	if n == 0 {
		os.WriteFile(*out, nil, 0o644)
		return
	}
	k := *workers
	if k > n {
		k = n
	}
	self, _ := os.Executable()
	var wg sync.WaitGroup
	parts := make([]string, k)
	for w := 0; w < k; w++ {
		lo, hi := w*n/k, (w+1)*n/k
		part := fmt.Sprintf("%s.part%d", *out, w)
		parts[w] = part
		os.Remove(part)
		wg.Add(1)
		go func(lo, hi int, part string) {
			defer wg.Done()
			for lo < hi {
				cmd := exec.Command(self, "worker", "-trees", *treesF, "-scen", *scenF, "-from", fmt.Sprint(lo), "-to", fmt.Sprint(hi), "-out", part)
				cmd.Stderr = os.Stderr
				base := countLines(part)
				if err := cmd.Start(); err != nil {
					die(2, "start worker: %v", err)
				}
				done := make(chan error, 1)
				go func() { done <- cmd.Wait() }()
				last, lastT := base, time.Now()
				var werr error
				killed := false
			wait:
				for {
					select {
					case werr = <-done:
						break wait
					case <-time.After(500 * time.Millisecond):
						c := countLines(part)
						if c != last {
							last, lastT = c, time.Now()
						} else if time.Since(lastT) > *stall {
							cmd.Process.Kill()
							killed = true
							werr = <-done
							break wait
						}
					}
				}
				written := countLines(part) - base
				lo += written
				if lo >= hi {
					break
				}
				if werr == nil && !killed {
					die(2, "worker ended early without error")
				}
				// the scenario at lo killed or hung the process: confirmed by running it once more on its own with six times
				// the patience (a loaded machine must not turn into a reported hang); only a second death or stall is recorded.
				// Once a few hangs are confirmed the code under test evidently hangs: later stalls are taken as they come.
				if atomic.LoadInt32(&confirmedHangs) >= 4 {
					rec := famOf(scs[lo]).crash(scs[lo], killed, "process died: "+fmt.Sprint(werr))
					fo, _ := os.OpenFile(part, os.O_APPEND|os.O_CREATE|os.O_WRONLY, 0o644)
					fo.Write(marshalLine(rec))
					fo.Close()
					lo++
					continue
				}
				if line, ok := runAlone(self, *treesF, *scenF, lo, part, 6**stall); ok {
					fo, _ := os.OpenFile(part, os.O_APPEND|os.O_CREATE|os.O_WRONLY, 0o644)
					fo.Write(line)
					fo.Close()
					lo++
					continue
				}
				atomic.AddInt32(&confirmedHangs, 1)
				rec := famOf(scs[lo]).crash(scs[lo], killed, "process died: "+fmt.Sprint(werr))
				fo, _ := os.OpenFile(part, os.O_APPEND|os.O_CREATE|os.O_WRONLY, 0o644)
				fo.Write(marshalLine(rec))
				fo.Close()
				lo++
			}
		}(lo, hi, part)
	}
	wg.Wait()
	fo, _ := os.Create(*out)
	for _, p := range parts {
		b, _ := os.ReadFile(p)
		fo.Write(b)
		os.Remove(p)
	}
	fo.Close()
}

// runAlone runs scenario number k in a process of its own; ok is false when that process dies or stays silent for `patience`.
func runAlone(self, trees, scen string, k int, part string, patience time.Duration) ([]byte, bool) {
	tmp := part + ".alone"
	os.Remove(tmp)
	defer os.Remove(tmp)
	cmd := exec.Command(self, "worker", "-trees", trees, "-scen", scen, "-from", fmt.Sprint(k), "-to", fmt.Sprint(k+1), "-out", tmp)
	cmd.Stderr = os.Stderr
	if err := cmd.Start(); err != nil {
		return nil, false
	}
	done := make(chan error, 1)
	go func() { done <- cmd.Wait() }()
	select {
	case err := <-done:
		if err != nil {
			return nil, false
		}
	case <-time.After(patience):
		cmd.Process.Kill()
		<-done
		return nil, false
	}
	b, err := os.ReadFile(tmp)
	if err != nil || countLines(tmp) != 1 {
		return nil, false
	}
	return b, true
}

func main() {
	if len(os.Args) < 2 {
		die(2, "usage: vh gen|decls|run|worker ...")
	}
	switch os.Args[1] {
	case "gen":
		cmdGen(os.Args[2:])
	case "decls":
		cmdDecls(os.Args[2:])
	case "run":
		cmdRun(os.Args[2:])
	case "worker":
		cmdWorker(os.Args[2:])
	case "ftab":
		cmdFtab(os.Args[2:])
	case "gen-help":
		fs := flag.NewFlagSet("gen-help", flag.ExitOnError)
		seed := fs.Int64("seed", 1, "")
		ntrees := fs.Int("ntrees", 50, "")
		per := fs.Int("per", 20, "")
		repeat := fs.Int("repeat", 1, "")
		outTrees := fs.String("trees", "trees.ndjson", "")
		outDecls := fs.String("decls", "decls.ndjson", "")
		outScen := fs.String("scen", "scen.ndjson", "")
		fs.Parse(os.Args[2:])
		r := rand.New(rand.NewSource(*seed))
		ft, _ := os.Create(*outTrees)
		fd, _ := os.Create(*outDecls)
		fsn, _ := os.Create(*outScen)
		wt, wd, ws := bufio.NewWriter(ft), bufio.NewWriter(fd), bufio.NewWriter(fsn)
		id := 0
		for n := 1; n <= *ntrees; {
			t := genTree(r, n)
			decorateForHelp(r, t)
			Flatten(t)
			if !treeOK(t) {
				continue
			}
			t.ID = n
			wt.Write(marshalLine(t))
			wd.Write(marshalLine(Flatten(t)))
			for k := 0; k < *per; k++ {
				id++
				sc := genHelp(r, t, id)
				sc.Repeat = *repeat
				ws.Write(marshalLine(sc))
			}
			n++
		}
		reportDrops(*ntrees)
		wt.Flush()
		wd.Flush()
		ws.Flush()
	case "gen-completion":
		fs := flag.NewFlagSet("gen-completion", flag.ExitOnError)
		seed := fs.Int64("seed", 1, "")
		ntrees := fs.Int("ntrees", 50, "")
		per := fs.Int("per", 20, "")
		crepeat := fs.Int("repeat", 1, "")
		outTrees := fs.String("trees", "trees.ndjson", "")
		outDecls := fs.String("decls", "decls.ndjson", "")
		outScen := fs.String("scen", "scen.ndjson", "")
		fs.Parse(os.Args[2:])
		r := rand.New(rand.NewSource(*seed))
		ft, _ := os.Create(*outTrees)
		fd, _ := os.Create(*outDecls)
		fsn, _ := os.Create(*outScen)
		wt, wd, ws := bufio.NewWriter(ft), bufio.NewWriter(fd), bufio.NewWriter(fsn)
		id := 0
		for n := 1; n <= *ntrees; {
			completerBias = true
			t := genTree(r, n)
			completerBias = false
			Flatten(t)
			if !treeOK(t) {
				continue
			}
			t.ID = n
			wt.Write(marshalLine(t))
			wd.Write(marshalLine(Flatten(t)))
			for k := 0; k < *per; k++ {
				id++
				csc := genCompletion(r, t, id)
				if *crepeat > 1 {
					csc.Tags = append(csc.Tags, fmt.Sprintf("repeat=%d", *crepeat))
				}
				ws.Write(marshalLine(csc))
			}
			n++
		}
		reportDrops(*ntrees)
		wt.Flush()
		wd.Flush()
		ws.Flush()
	case "conv-trees":
		cmdConvTrees(os.Args[2:])
	case "gen-session":
		fs := flag.NewFlagSet("gen-session", flag.ExitOnError)
		seed := fs.Int64("seed", 1, "")
		ntrees := fs.Int("ntrees", 50, "")
		per := fs.Int("per", 20, "")
		kind := fs.String("kind", "robust", "robust | equiv | sources | roundtrip | determinism")
		repeat := fs.Int("repeat", 50, "")
		outTrees := fs.String("trees", "trees.ndjson", "")
		outDecls := fs.String("decls", "decls.ndjson", "")
		outScen := fs.String("scen", "scen.ndjson", "")
		fs.Parse(os.Args[2:])
		r := rand.New(rand.NewSource(*seed))
		ft, _ := os.Create(*outTrees)
		fd, _ := os.Create(*outDecls)
		fsn, _ := os.Create(*outScen)
		wt, wd, ws := bufio.NewWriter(ft), bufio.NewWriter(fd), bufio.NewWriter(fsn)
		id := 0
		for n := 1; n <= *ntrees; {
			var t *Tree
			if *kind == "roundtrip" || (*kind == "determinism" && n%2 == 0) {
				t = genTreeRT(r, n)
				decorateFieldAliases(r, t, 0.3)
			} else {
				t = genTree(r, n)
				decorateFieldAliases(r, t, 0.15)
				decorateIniNames(r, t)
			}
			decorateInline(r, t, 0.15)
			Flatten(t)
			if !treeOK(t) {
				continue
			}
			t.ID = n
			wt.Write(marshalLine(t))
			wd.Write(marshalLine(Flatten(t)))
			for k := 0; k < *per; k++ {
				id++
				var sc *SessionScn
				switch *kind {
				case "robust":
					sc = genSessionRobust(r, t, id)
				case "equiv":
					sc = genSessionEquiv(r, t, id)
				case "sources":
					sc = genSessionSources(r, t, id)
				case "roundtrip":
					sc = genSessionRoundTrip(r, t, id)
				case "determinism":
					sc = genSessionDeterminism(r, t, id, *repeat)
				default:
					die(2, "unknown kind %s", *kind)
				}
				ws.Write(marshalLine(sc))
			}
			n++
		}
		reportDrops(*ntrees)
		wt.Flush()
		wd.Flush()
		ws.Flush()
	case "gen-decl":
		fs := flag.NewFlagSet("gen-decl", flag.ExitOnError)
		seed := fs.Int64("seed", 1, "")
		n := fs.Int("n", 1000, "")
		repeat := fs.Int("repeat", 1, "")
		out := fs.String("scen", "scen.ndjson", "")
		fs.Parse(os.Args[2:])
		r := rand.New(rand.NewSource(*seed))
		f, _ := os.Create(*out)
		w := bufio.NewWriter(f)
		for i := 1; i <= *n; i++ {
			sc := genDecl(r, i)
			sc.Repeat = *repeat
			w.Write(marshalLine(sc))
		}
		w.Flush()
		f.Close()
	case "gen-closest":
		fs := flag.NewFlagSet("gen-closest", flag.ExitOnError)
		seed := fs.Int64("seed", 1, "")
		n := fs.Int("n", 1000, "")
		repeat := fs.Int("repeat", 1, "")
		out := fs.String("scen", "scen.ndjson", "")
		fs.Parse(os.Args[2:])
		r := rand.New(rand.NewSource(*seed))
		f, _ := os.Create(*out)
		w := bufio.NewWriter(f)
		for i := 1; i <= *n; i++ {
			sc := genClosest(r, i)
			sc.Repeat = *repeat
			w.Write(marshalLine(sc))
		}
		w.Flush()
		f.Close()
	default:
		die(2, "unknown command %s", os.Args[1])
	}
}
