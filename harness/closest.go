package main

// Family "closest" (C20): command sets and a word, through the public ParseArgs.

import (
	"encoding/json"
	"fmt"
	"math/rand"
	"reflect"
	"strconv"
	"strings"

	flags "github.com/jessevdk/go-flags"
)

type ClosestScn struct {
	Fam    string `json:"fam"`
	ID     int    `json:"id"`
	Names  []S    `json:"names"`
	Hidden []bool `json:"hidden"`
	// the Hidden marks are public fields: with HasBefore the commands carry the marks Before during a first pair of failing
	// parses on the same parser, and the marks Hidden during the judged one
	HasBefore bool   `json:"hasBefore"`
	Before    []bool `json:"before"`
	// ByTag: the commands are declared by struct tags (command:"name" [hidden:"text"]) instead of AddCommand; a command is
	// hidden when its hidden tag is present with ANY non-empty text (HiddenTag[i]; also "no", "0", "false")
	ByTag     bool `json:"byTag"`
	HiddenTag []S  `json:"hiddenTag"`
	// DD: the vector is ["--", word] on a parser with PassDoubleDash (the diagnosis is about the first remaining argument)
	DD      bool        `json:"dd"`
	HasWord bool        `json:"hasWord"`
	Word    S           `json:"word"`
	Aliases [][]S       `json:"aliases"` // per command; never suggested or enumerated, but a word equal to one selects the command
	Repeat  int         `json:"repeat"`  // C15: run on this many fresh parsers; the messages must coincide
	Obs     *ClosestObs `json:"obs,omitempty"`
}

type ClosestObs struct {
	Panic    bool   `json:"panic"`
	Timeout  bool   `json:"timeout"`
	ErrType  string `json:"errType"`
	Kind     string `json:"kind"` // suggest | enum | none | unparsed
	Names    []S    `json:"names"`
	Word     S      `json:"word"`
	Msg      S      `json:"msg"`
	PanicMsg S      `json:"panicMsg"`
	Distinct int    `json:"distinct"`
}

type nopCmd struct{}

func splitList(list string) []S {
	// "a, b or c" | "a or b"
	out := []S{}
	i := strings.LastIndex(list, " or ")
	if i < 0 {
		return []S{toS(list)}
	}
	head, last := list[:i], list[i+4:]
	for _, p := range strings.Split(head, ", ") {
		out = append(out, toS(p))
	}
	return append(out, toS(last))
}

func runClosest(sc *ClosestScn) *ClosestObs {
	obs := &ClosestObs{Names: []S{}}
	popts := flags.None
	if sc.DD {
		popts = flags.PassDoubleDash
	}
	p := flags.NewNamedParser("app", popts)
	var cmds []*flags.Command
	if sc.ByTag && len(sc.HiddenTag) == len(sc.Names) {
		var fs []reflect.StructField
		for i, n := range sc.Names {
			tag := "command:" + strconv.Quote(n.String())
			if ht := sc.HiddenTag[i].String(); ht != "" {
				tag += " hidden:" + strconv.Quote(ht)
			}
			fs = append(fs, reflect.StructField{Name: "C" + itoa(i), Type: reflect.TypeOf(nopCmd{}), Tag: reflect.StructTag(tag)})
		}
		var err error
		func() {
			defer func() {
				if r := recover(); r != nil {
					err = fmt.Errorf("panic: %v", r)
				}
			}()
			_, err = p.AddGroup("Application Options", "", reflect.New(reflect.StructOf(fs)).Interface())
		}()
		if err != nil {
			obs.ErrType = "setup"
			return obs
		}
		cmds = p.Commands()
		for i, c := range cmds {
			if i < len(sc.Hidden) && sc.Hidden[i] {
				c.Hidden = true
			}
		}
	} else {
		for i, n := range sc.Names {
			c, err := p.AddCommand(n.String(), "", "", &nopCmd{})
			if err != nil {
				obs.ErrType = "setup"
				return obs
			}
			c.Hidden = sc.Hidden[i]
			cmds = append(cmds, c)
		}
	}
	if len(sc.Aliases) == len(cmds) {
		for i, c := range cmds {
			for _, a := range sc.Aliases[i] {
				c.Aliases = append(c.Aliases, a.String())
			}
		}
	}
	var args []string
	if sc.HasWord {
		args = []string{sc.Word.String()}
	}
	if sc.DD {
		args = append([]string{"--"}, args...)
	}
	if sc.HasBefore && len(sc.Before) == len(cmds) {
		declared := make([]bool, len(cmds))
		for i, c := range cmds {
			declared[i] = c.Hidden
			c.Hidden = sc.Before[i]
		}
		func() {
			defer func() { recover() }()
			p.ParseArgs([]string{})
			p.ParseArgs(args)
		}()
		for i, c := range cmds {
			c.Hidden = declared[i] // back to what the declaration gave (tag and field)
		}
	}
	var err error
	func() {
		defer func() {
			if r := recover(); r != nil {
				obs.Panic = true
				obs.PanicMsg = toS(fmt.Sprint(r))
			}
		}()
		_, err = p.ParseArgs(args)
	}()
	if obs.Panic {
		obs.ErrType = "panic"
		return obs
	}
	if err == nil {
		obs.ErrType = "none"
		return obs
	}
	fe, ok := err.(*flags.Error)
	if !ok {
		obs.ErrType = "foreign"
		return obs
	}
	obs.ErrType = errTypeNames[fe.Type]
	msg := fe.Message
	obs.Msg = toS(msg)
	obs.Kind = "unparsed"
	switch fe.Type {
	case flags.ErrUnknownCommand:
		pre := "Unknown command `" + sc.Word.String() + "'"
		if !strings.HasPrefix(msg, pre) {
			return obs
		}
		obs.Word = sc.Word
		rest := msg[len(pre):]
		switch {
		case rest == "":
			obs.Kind = "none"
		case strings.HasPrefix(rest, ", did you mean `") && strings.HasSuffix(rest, "'?"):
			obs.Kind = "suggest"
			obs.Names = []S{toS(rest[len(", did you mean `") : len(rest)-2])}
		case strings.HasPrefix(rest, ". You should use the ") && strings.HasSuffix(rest, " command"):
			obs.Kind = "enum"
			obs.Names = []S{toS(rest[len(". You should use the ") : len(rest)-len(" command")])}
		case strings.HasPrefix(rest, ". Please specify one command of: "):
			obs.Kind = "enum"
			obs.Names = splitList(rest[len(". Please specify one command of: "):])
		}
	case flags.ErrCommandRequired:
		switch {
		case msg == "":
			obs.Kind = "none"
		case strings.HasPrefix(msg, "Please specify the ") && strings.HasSuffix(msg, " command"):
			obs.Kind = "enum"
			obs.Names = []S{toS(msg[len("Please specify the ") : len(msg)-len(" command")])}
		case strings.HasPrefix(msg, "Please specify one command of: "):
			obs.Kind = "enum"
			obs.Names = splitList(msg[len("Please specify one command of: "):])
		}
	}
	return obs
}

func init() {
	families["closest"] = family{
		run: func(trees []*Tree, line []byte) any {
			sc := &ClosestScn{}
			if err := json.Unmarshal(line, sc); err != nil {
				die(2, "closest scenario: %v", err)
			}
			sc.Obs = runClosest(sc)
			sc.Obs.Distinct = 1
			if sc.Repeat > 1 {
				first, _ := json.Marshal(sc.Obs)
				seen := map[string]bool{string(first): true}
				for i := 1; i < sc.Repeat; i++ {
					o := runClosest(sc)
					o.Distinct = 1
					j, _ := json.Marshal(o)
					seen[string(j)] = true
				}
				sc.Obs.Distinct = len(seen)
			}
			return sc
		},
		crash: func(line []byte, timeout bool, msg string) any {
			sc := &ClosestScn{}
			json.Unmarshal(line, sc)
			sc.Obs = &ClosestObs{Panic: !timeout, Timeout: timeout, ErrType: "panic", Names: []S{}, PanicMsg: toS(msg)}
			return sc
		},
	}
}

var closestAlpha = []string{"a", "b", "c", "d", "e", "x", "é", "世", "ß", "-", "A"}
var closestWords = []string{"add", "ad", "rm", "remove", "remote", "list", "ls", "commit", "co", "checkout", "status", "stash", "naïve", "世界", "x", "abc", "zzzzzz", "résumé", "resume"}

func genClosestName(r *rand.Rand) string {
	if chance(r, 0.5) {
		return pick(r, closestWords)
	}
	n := 1 + r.Intn(7)
	var b strings.Builder
	for i := 0; i < n; i++ {
		b.WriteString(pick(r, closestAlpha))
	}
	return b.String()
}

func mutateWord(r *rand.Rand, w string) string {
	rs := []rune(w)
	k := r.Intn(3)
	for i := 0; i <= k; i++ {
		switch r.Intn(4) {
		case 0:
			if len(rs) > 0 {
				j := r.Intn(len(rs))
				rs = append(rs[:j], rs[j+1:]...)
			}
		case 1:
			j := r.Intn(len(rs) + 1)
			rs = append(rs[:j], append([]rune(pick(r, closestAlpha)), rs[j:]...)...)
		case 2:
			if len(rs) > 0 {
				rs[r.Intn(len(rs))] = []rune(pick(r, closestAlpha))[0]
			}
		case 3:
			if len(rs) > 1 {
				j := r.Intn(len(rs) - 1)
				rs[j], rs[j+1] = rs[j+1], rs[j]
			}
		}
	}
	return string(rs)
}

func genClosest(r *rand.Rand, id int) *ClosestScn {
	sc := &ClosestScn{Fam: "closest", ID: id, Names: []S{}, Hidden: []bool{}}
	n := r.Intn(6)
	if chance(r, 0.9) && n == 0 {
		n = 1
	}
	seen := map[string]bool{}
	var names []string
	for len(names) < n {
		w := genClosestName(r)
		if seen[w] || w == "" || strings.HasPrefix(w, "-") {
			continue
		}
		seen[w] = true
		names = append(names, w)
		sc.Names = append(sc.Names, toS(w))
		sc.Hidden = append(sc.Hidden, chance(r, 0.2))
	}
	tieWord := ""
	if len(names) >= 1 && len(names) < 6 && chance(r, 0.12) {
		// two names at the same distance from the word: n+"a", n+"b" and the word n+"c"
		base := []rune(names[0])
		if len(base) >= 3 {
			stem := string(base[:len(base)-1])
			second := stem + "q"
			if !seen[second] && second != names[0] {
				seen[second] = true
				names = append(names, second)
				sc.Names = append(sc.Names, toS(second))
				sc.Hidden = append(sc.Hidden, false)
				tieWord = stem + "j"
			}
		}
	}
	sc.HiddenTag = []S{}
	sc.Aliases = [][]S{}
	for range names {
		sc.HiddenTag = append(sc.HiddenTag, S{})
		al := []S{}
		if chance(r, 0.2) {
			for k, m := 0, 1+r.Intn(2); k < m; k++ {
				a := genClosestName(r)
				if !seen[a] && a != "" && !strings.HasPrefix(a, "-") {
					seen[a] = true
					al = append(al, toS(a))
				}
			}
		}
		sc.Aliases = append(sc.Aliases, al)
	}
	sc.Repeat = 1
	if chance(r, 0.25) {
		sc.ByTag = true
		for i := range names {
			if chance(r, 0.4) {
				sc.HiddenTag[i] = toS(pick(r, []string{"yes", "1", "true", "no", "0", "false", "x"}))
			}
		}
	}
	sc.DD = chance(r, 0.15)
	sc.Before = []bool{}
	if chance(r, 0.3) {
		sc.HasBefore = true
		for range names {
			sc.Before = append(sc.Before, chance(r, 0.4))
		}
	}
	sc.HasWord = chance(r, 0.9)
	if sc.HasWord {
		var w string
		for {
			switch {
			case len(names) > 0 && chance(r, 0.6):
				w = mutateWord(r, pick(r, names))
			default:
				w = genClosestName(r)
			}
			if w != "" && !strings.HasPrefix(w, "-") && !seen[w] {
				break
			}
			if chance(r, 0.02) { // the empty word is a word too
				w = ""
				break
			}
		}
		if tieWord != "" && !seen[tieWord] {
			w = tieWord
		}
		sc.Word = toS(w)
	}
	return sc
}
