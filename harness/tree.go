package main

// The declaration tree shared by the generators, the builder (tree -> real
// go-flags parser over reflect.StructOf types) and the flattener (tree -> the
// Decl record the TLA+ specification reads).

import (
	"encoding/json"
	"unicode/utf8"
)

// S is a string as the specification sees it: a sequence of code points; a
// byte that is not valid UTF-8 is 1114112 + byte.
type S []int

func toS(s string) S {
	out := make(S, 0, len(s))
	for i := 0; i < len(s); {
		r, n := utf8.DecodeRuneInString(s[i:])
		if r == utf8.RuneError && n == 1 {
			out = append(out, 1114112+int(s[i]))
		} else {
			out = append(out, int(r))
		}
		i += n
	}
	return out
}

func (s S) String() string {
	b := make([]byte, 0, len(s))
	for _, c := range s {
		if c >= 1114112 {
			b = append(b, byte(c-1114112))
		} else {
			b = utf8.AppendRune(b, rune(c))
		}
	}
	return string(b)
}

func (s S) MarshalJSON() ([]byte, error) {
	if len(s) == 0 {
		return []byte("[]"), nil
	}
	return json.Marshal([]int(s))
}

func toSs(ss []string) []S {
	out := make([]S, len(ss))
	for i, s := range ss {
		out[i] = toS(s)
	}
	return out
}

// Txt is a text that may contain bytes that are not valid UTF-8: it travels in JSON as a string when it is
// valid UTF-8 and as an array of code points (S) otherwise; both forms are read.
type Txt string

func (t Txt) MarshalJSON() ([]byte, error) {
	if utf8.ValidString(string(t)) {
		return json.Marshal(string(t))
	}
	return json.Marshal(toS(string(t)))
}

func (t *Txt) UnmarshalJSON(b []byte) error {
	if len(b) > 0 && b[0] == '[' {
		var cps []int
		if err := json.Unmarshal(b, &cps); err != nil {
			return err
		}
		*t = Txt(S(cps).String())
		return nil
	}
	var s string
	if err := json.Unmarshal(b, &s); err != nil {
		return err
	}
	*t = Txt(s)
	return nil
}

func txts(ss ...string) []Txt {
	out := make([]Txt, len(ss))
	for i, s := range ss {
		out[i] = Txt(s)
	}
	return out
}

// ---------------------------------------------------------------- tree

type OptNode struct {
	Short     string   `json:"short,omitempty"` // one character or ""
	Long      string   `json:"long,omitempty"`
	Kind      string   `json:"kind"`               // flag counter ptrflag scalar slice map ptr func0 func1
	VType     string   `json:"vtype"`              // string int int8 ... uint64 float32 float64 duration um bool
	KType     string   `json:"ktype,omitempty"`    // maps: key type ("" = string)
	ReqField  bool     `json:"reqField,omitempty"` // the option is made required through its public Required field after construction (no required tag)
	ErrPtr    bool     `json:"errPtr,omitempty"`   // callbacks: the func type returns *flags.Error (a nil one); the library looks at results of type error only
	Param     string   `json:"param,omitempty"`    // func1: "" the parameter is a scalar; "slice" []T; "map" map[string]T; "ptr" *T
	Base      int      `json:"base,omitempty"`
	Optional  bool     `json:"optional,omitempty"`
	OptVals   []string `json:"optvals,omitempty"`
	Required  bool     `json:"required,omitempty"`
	Defaults  []string `json:"defaults,omitempty"`
	Env       string   `json:"env,omitempty"`
	EnvDelim  string   `json:"envDelim,omitempty"`
	Choices   []string `json:"choices,omitempty"`
	Hidden    bool     `json:"hidden,omitempty"`
	NoUnquote bool     `json:"noUnquote,omitempty"`
	IniName   string   `json:"iniName,omitempty"`
	NoIni     bool     `json:"noIni,omitempty"`
	ValueName string   `json:"valueName,omitempty"`
	Desc      string   `json:"desc,omitempty"`
	Mask      string   `json:"mask,omitempty"`
	Init      []Txt    `json:"init,omitempty"`   // preset field contents (texts; maps as "k:v")
	FailOn    *string  `json:"failOn,omitempty"` // callbacks: return an error when called with this text
	Validator bool     `json:"validator,omitempty"`
	ErrFunc   bool     `json:"errFunc,omitempty"` // callbacks: func type returns error

	FieldAlias string `json:"fieldAlias,omitempty"` // Go field name shared with an option of an enclosing group ("" = the unique F<idx>)

	idx   int
	field string
}

type GroupNode struct {
	Desc   string       `json:"desc"`
	Ns     string       `json:"ns,omitempty"`
	EnvNs  string       `json:"envNs,omitempty"`
	Hidden bool         `json:"hidden,omitempty"`
	Ptr    bool         `json:"ptr,omitempty"`  // nested group declared as *struct
	Late   bool         `json:"late,omitempty"` // a top-level group of the parser that a scenario with lateGroup adds (AddGroup) only after its first ParseArgs
	Opts   []*OptNode   `json:"opts,omitempty"`
	Groups []*GroupNode `json:"groups,omitempty"`
	// struct fields of this group's struct that carry no-flag (with or without a group tag): nothing inside them is declared,
	// whatever tags their own fields have (the flat declaration does not contain them)
	NoFlag []*GroupNode `json:"noFlag,omitempty"`
	// the options Opts[InlineFrom:] are declared inside an untagged struct field ("val") or an untagged, non-nil pointer to
	// a struct ("ptr") placed after the direct options: the library flattens it into this group, so the flat declaration
	// is the same ("" = every option is a direct field)
	Inline     string `json:"inline,omitempty"`
	InlineFrom int    `json:"inlineFrom,omitempty"`

	idx int
}

type ArgNode struct {
	Name   string   `json:"name"`
	VType  string   `json:"vtype"`
	Slice  bool     `json:"slice,omitempty"`
	Map    bool     `json:"map,omitempty"`    // a positional of type map[string]string: one key:value token, then the next positional
	ReqTag string   `json:"reqTag,omitempty"` // the text of the required tag ("" none, "yes", "2", "1-3")
	Desc   string   `json:"desc,omitempty"`
	Base   int      `json:"base,omitempty"`
	Init   []string `json:"init,omitempty"`
}

type CmdNode struct {
	Name     string       `json:"name"`
	Aliases  []string     `json:"aliases,omitempty"`
	SubOpt   bool         `json:"subOpt,omitempty"`
	Hidden   bool         `json:"hidden,omitempty"`
	Style    string       `json:"style"` // root | tag | prog | exec
	Desc     string       `json:"desc,omitempty"`
	LongDesc string       `json:"longDesc,omitempty"`
	Own      *GroupNode   `json:"own,omitempty"`   // options / nested groups of the command's own struct (tag, prog)
	Extra    []*GroupNode `json:"extra,omitempty"` // groups added with AddGroup
	Args     []*ArgNode   `json:"args,omitempty"`
	ArgsReq  bool         `json:"argsReq,omitempty"`  // required tag on the positional-args struct
	ArgSplit int          `json:"argSplit,omitempty"` // > 0: the positionals are declared in two positional-args structs, this many in the first
	Cmds     []*CmdNode   `json:"cmds,omitempty"`

	idx int
}

type Tree struct {
	ID       int      `json:"id"`
	NsDelim  string   `json:"nsDelim"`
	EnvDelim string   `json:"envDelim"`
	Root     *CmdNode `json:"root"`
	Note     string   `json:"note,omitempty"`
}

// ---------------------------------------------------------------- flat Decl (what TLC reads)

type FOpt struct {
	Cmd       int    `json:"cmd"`
	Group     int    `json:"group"`
	Short     int    `json:"short"`
	Long      S      `json:"long"`
	Kind      string `json:"kind"`
	VType     string `json:"vtype"`
	KType     string `json:"ktype"`
	Late      bool   `json:"late"`
	Param     string `json:"param"`
	Base      int    `json:"base"`
	Optional  bool   `json:"optional"`
	OptVals   []S    `json:"optvals"`
	Required  bool   `json:"required"`
	Defaults  []S    `json:"defaults"`
	Env       S      `json:"env"`
	EnvDelim  S      `json:"envDelim"`
	Choices   []S    `json:"choices"`
	Hidden    bool   `json:"hidden"`
	Unquote   bool   `json:"unquote"`
	IniName   S      `json:"iniName"`
	NoIni     bool   `json:"noIni"`
	Field     S      `json:"field"`
	ValueName S      `json:"valueName"`
	Desc      S      `json:"desc"`
	Mask      S      `json:"mask"`
	Init      []any  `json:"init"`
	FailOn    []S    `json:"failOn"`
	Validator bool   `json:"validator"`
}

type FGroup struct {
	Cmd    int  `json:"cmd"`
	Parent int  `json:"parent"`
	Desc   S    `json:"desc"`
	Ns     S    `json:"ns"`
	EnvNs  S    `json:"envNs"`
	Hidden bool `json:"hidden"`
	Own    bool `json:"own"`
}

type FArg struct {
	Name   S      `json:"name"`
	VType  string `json:"vtype"`
	Slice  bool   `json:"slice"`
	Map    bool   `json:"map"`
	Req    int    `json:"req"`
	ReqMax int    `json:"reqMax"`
	Desc   S      `json:"desc"`
	Base   int    `json:"base"`
	Init   []S    `json:"init"`
}

type FCmd struct {
	Parent   int    `json:"parent"`
	Name     S      `json:"name"`
	Aliases  []S    `json:"aliases"`
	SubOpt   bool   `json:"subOpt"`
	Hidden   bool   `json:"hidden"`
	Exec     bool   `json:"exec"`
	ArgsReq  bool   `json:"argsReq"`
	Args     []FArg `json:"args"`
	Desc     S      `json:"desc"`
	LongDesc S      `json:"longDesc"`
	Style    string `json:"style"`
}

type Decl struct {
	ID       int      `json:"id"`
	NsDelim  S        `json:"nsDelim"`
	EnvDelim S        `json:"envDelim"`
	Cmds     []FCmd   `json:"cmds"`
	Groups   []FGroup `json:"groups"`
	Opts     []FOpt   `json:"opts"`
}

// parseReqTag mirrors the documented meaning of the required tag on a
// positional field: "" -> (-1,-1); "N" -> (N,-1); "N-M" -> (N,M); any other
// non-empty text -> (1,-1).
func parseReqTag(t string) (int, int) {
	if t == "" {
		return -1, -1
	}
	req, max := 1, -1
	dash := -1
	for i := 0; i < len(t); i++ {
		if t[i] == '-' {
			dash = i
			break
		}
	}
	atoi := func(s string) (int, bool) {
		if s == "" {
			return 0, false
		}
		n := 0
		for _, c := range s {
			if c < '0' || c > '9' {
				return 0, false
			}
			n = n*10 + int(c-'0')
			if n > 1000000 {
				return 0, false
			}
		}
		return n, true
	}
	if dash >= 0 {
		if n, ok := atoi(t[:dash]); ok {
			req = n
		}
		if n, ok := atoi(t[dash+1:]); ok {
			max = n
		}
	} else if n, ok := atoi(t); ok {
		req = n
	}
	return req, max
}

func shortCP(s string) int {
	if s == "" {
		return 0
	}
	return toS(s)[0]
}

func base10(b int) int {
	if b == 0 {
		return 10
	}
	return b
}

// initAtoms renders the preset contents of an option the way observations
// report values (see obsValue).
func initAtoms(o *OptNode) []any {
	out := []any{}
	switch o.Kind {
	case "flag":
		if len(o.Init) > 0 {
			out = append(out, toS(string(o.Init[0])))
		} else {
			out = append(out, toS("false"))
		}
	case "scalar":
		if len(o.Init) > 0 {
			out = append(out, toS(string(o.Init[0])))
		} else {
			out = append(out, toS(zeroText(o.VType)))
		}
	case "map":
		for _, kv := range o.Init {
			k, v := splitKV(string(kv))
			out = append(out, []S{toS(k), toS(v)})
		}
	case "func0", "func1":
	default:
		for _, v := range o.Init {
			out = append(out, toS(string(v)))
		}
	}
	return out
}

func zeroText(vt string) string {
	switch vt {
	case "string", "um", "us", "cc":
		return ""
	case "bool", "tb":
		return "false"
	case "duration":
		return "0s"
	}
	return "0"
}

func splitKV(kv string) (string, string) {
	for i := 0; i < len(kv); i++ {
		if kv[i] == ':' {
			return kv[:i], kv[i+1:]
		}
	}
	return kv, ""
}

// Flatten numbers commands, groups and options in the order go-flags
// traverses them and produces the record the specification reads.
func Flatten(t *Tree) *Decl {
	d := &Decl{ID: t.ID, NsDelim: toS(t.NsDelim), EnvDelim: toS(t.EnvDelim)}
	var walkCmd func(c *CmdNode, parent int, parentOwn int)
	walkCmd = func(c *CmdNode, parent int, parentOwn int) {
		d.Cmds = append(d.Cmds, FCmd{})
		ci := len(d.Cmds)
		c.idx = ci
		fc := FCmd{Parent: parent, Name: toS(c.Name), Aliases: toSs(c.Aliases), SubOpt: c.SubOpt, Hidden: c.Hidden,
			Exec: c.Style == "exec", ArgsReq: c.ArgsReq, Desc: toS(c.Desc), LongDesc: toS(c.LongDesc), Style: c.Style, Args: []FArg{}}
		for _, a := range c.Args {
			r, m := parseReqTag(a.ReqTag)
			init := a.Init
			if !a.Slice && !a.Map && len(init) == 0 {
				init = []string{zeroText(a.VType)}
			}
			fc.Args = append(fc.Args, FArg{Name: toS(a.Name), VType: a.VType, Slice: a.Slice, Map: a.Map, Req: r, ReqMax: m,
				Desc: toS(a.Desc), Base: base10(a.Base), Init: toSs(init)})
		}
		d.Cmds[ci-1] = fc
		// the command's own group
		own := c.Own
		if own == nil {
			own = &GroupNode{}
		}
		// Command embeds *Group: a command's Hidden mark is the Hidden mark of its own group
		d.Groups = append(d.Groups, FGroup{Cmd: ci, Parent: parentOwn, Desc: toS(c.Desc), Own: true, Hidden: c.Hidden})
		ownIdx := len(d.Groups)
		own.idx = ownIdx
		late := false
		var walkGroup func(g *GroupNode, gi int)
		walkGroup = func(g *GroupNode, gi int) {
			for _, o := range g.Opts {
				fo := FOpt{Cmd: ci, Group: gi, Short: shortCP(o.Short), Long: toS(o.Long), Kind: o.Kind, VType: o.VType, KType: ktypeOf(o), Param: o.Param,
					Base: base10(o.Base), Optional: o.Optional, OptVals: toSs(o.OptVals), Required: o.Required,
					Defaults: toSs(o.Defaults), Env: toS(o.Env), EnvDelim: toS(o.EnvDelim), Choices: toSs(o.Choices),
					Hidden: o.Hidden, Unquote: !o.NoUnquote, IniName: toS(o.IniName), NoIni: o.NoIni,
					ValueName: toS(o.ValueName), Desc: toS(o.Desc), Mask: toS(o.Mask), Init: initAtoms(o), FailOn: []S{},
					Validator: o.Validator, Late: late}
				if o.FailOn != nil {
					fo.FailOn = []S{toS(*o.FailOn)}
				}
				d.Opts = append(d.Opts, fo)
				o.idx = len(d.Opts)
				o.field = fieldName(o.idx)
				if o.FieldAlias != "" {
					o.field = o.FieldAlias
				}
				d.Opts[o.idx-1].Field = toS(o.field)
			}
			for _, sg := range g.Groups {
				d.Groups = append(d.Groups, FGroup{Cmd: ci, Parent: gi, Desc: toS(sg.Desc), Ns: toS(sg.Ns), EnvNs: toS(sg.EnvNs), Hidden: sg.Hidden})
				sg.idx = len(d.Groups)
				walkGroup(sg, sg.idx)
			}
		}
		walkGroup(own, ownIdx)
		for _, g := range c.Extra {
			d.Groups = append(d.Groups, FGroup{Cmd: ci, Parent: ownIdx, Desc: toS(g.Desc), Ns: toS(g.Ns), EnvNs: toS(g.EnvNs), Hidden: g.Hidden})
			g.idx = len(d.Groups)
			late = g.Late && ci == 1
			walkGroup(g, g.idx)
			late = false
		}
		for _, sc := range c.Cmds {
			walkCmd(sc, ci, ownIdx)
		}
	}
	walkCmd(t.Root, 0, 0)
	if d.Opts == nil {
		d.Opts = []FOpt{}
	}
	return d
}

func fieldName(i int) string {
	return "F" + itoa(i)
}

func itoa(i int) string {
	if i == 0 {
		return "0"
	}
	neg := i < 0
	if neg {
		i = -i
	}
	var b []byte
	for i > 0 {
		b = append([]byte{byte('0' + i%10)}, b...)
		i /= 10
	}
	if neg {
		b = append([]byte{'-'}, b...)
	}
	return string(b)
}

func ktypeOf(o *OptNode) string {
	if o.KType == "" {
		return "string"
	}
	return o.KType
}
