package main

// Generators for the "session" family: INI texts addressing the options of a
// declaration tree in every naming form, single faults, noise, source
// histories, round trips.

import (
	"math/rand"
	"strconv"
	"strings"
)

type iniTarget struct {
	o       *OptNode
	nsLong  string
	cmdPath []string // command names from below the root
	groups  []string // descriptions of the enclosing groups (outermost first), "" for a command's own group
}

// iniTargets lists every option with the ways its section can be spelled.
func iniTargets(t *Tree) []iniTarget {
	var out []iniTarget
	var walkCmd func(c *CmdNode, path []string)
	walkCmd = func(c *CmdNode, path []string) {
		var walkG func(g *GroupNode, prefix string, descs []string)
		walkG = func(g *GroupNode, prefix string, descs []string) {
			for _, o := range g.Opts {
				it := iniTarget{o: o, cmdPath: path, groups: append([]string{}, descs...)}
				if o.Long != "" {
					it.nsLong = prefix + o.Long
				}
				out = append(out, it)
			}
			for _, sg := range g.Groups {
				p := prefix
				if sg.Ns != "" {
					p = prefix + sg.Ns + t.NsDelim
				}
				walkG(sg, p, append(append([]string{}, descs...), sg.Desc))
			}
		}
		if c.Own != nil {
			walkG(c.Own, "", nil)
		}
		for _, g := range c.Extra {
			p := ""
			if g.Ns != "" {
				p = g.Ns + t.NsDelim
			}
			walkG(g, p, []string{g.Desc})
		}
		for _, sc := range c.Cmds {
			walkCmd(sc, append(append([]string{}, path...), sc.Name))
		}
	}
	walkCmd(t.Root, nil)
	return out
}

func randCase(r *rand.Rand, s string) string {
	switch r.Intn(4) {
	case 0:
		return strings.ToUpper(s)
	case 1:
		return strings.ToLower(s)
	case 2:
		b := []rune(s)
		for i := range b {
			if chance(r, 0.5) {
				b[i] = []rune(strings.ToUpper(string(b[i])))[0]
			}
		}
		return string(b)
	}
	return s
}

// sectionFor spells a section that addresses the target's option.
func sectionFor(r *rand.Rand, it iniTarget) string {
	path := strings.Join(it.cmdPath, ".")
	var grp string
	if len(it.groups) > 0 && it.groups[len(it.groups)-1] != "" {
		// any enclosing group addresses the option (the search covers the sub-tree)
		grp = it.groups[r.Intn(len(it.groups))]
		if chance(r, 0.5) {
			grp = randCase(r, grp)
		}
	}
	switch {
	case path == "" && (grp == "" || chance(r, 0.35)):
		return ""
	case path == "":
		return grp
	case grp == "" || chance(r, 0.4):
		return path
	default:
		return path + "." + grp
	}
}

func nameFor(r *rand.Rand, it iniTarget) (string, string) {
	var forms []string
	if it.o.IniName != "" {
		forms = append(forms, "ini")
	}
	forms = append(forms, "field")
	if it.nsLong != "" {
		forms = append(forms, "long")
	}
	if it.o.Short != "" {
		forms = append(forms, "short")
	}
	f := pick(r, forms)
	switch f {
	case "ini":
		return randCase(r, it.o.IniName), f
	case "field":
		return it.o.field, f
	case "long":
		return it.nsLong, f
	}
	return it.o.Short, f
}

func iniAble(o *OptNode) bool { return o.Kind != "func0" && o.Kind != "func1" }

func iniValueFor(r *rand.Rand, o *OptNode, valid bool) string {
	switch o.Kind {
	case "flag", "counter", "ptrflag":
		if valid {
			return pick(r, []string{"true", "false", "", "1", "0", "T"})
		}
		return pick(r, []string{"yes", "maybe", "2"})
	}
	if valid {
		v := validValue(r, o)
		if strings.TrimSpace(v) != v || strings.HasPrefix(v, `"`) {
			if o.Kind == "map" {
				k, val := splitKV(v)
				return k + ":" + strconv.Quote(val)
			}
			return strconv.Quote(v)
		}
		if chance(r, 0.2) && o.Kind != "map" {
			return strconv.Quote(v)
		}
		if chance(r, 0.2) && o.Kind == "map" {
			k, val := splitKV(v)
			return k + ":" + strconv.Quote(val) // a quoted map value (it may hold a colon of its own)
		}
		return v
	}
	return invalidValue(r, o)
}

type iniLine struct {
	text string
	kind string
}

var noiseLines = []string{"", "   ", "; comment", "# comment", "\t; indented comment", ";", "#[x]", "; a = b"}

func pad(r *rand.Rand, s string) string {
	return pick(r, []string{"", " ", "\t", "  "}) + s + pick(r, []string{"", " ", "\t "})
}

// genIniText: entries for a random subset of options (all within one command chain when oneChain), with noise.
// Returns the text and, per entry, (target, value as the parser should see it, raw value text).
type iniEntry struct {
	it    iniTarget
	value string // decoded value
	form  string
}

func genIniText(r *rand.Rand, t *Tree, n int, oneChain bool, valid bool, noise bool) (string, []iniEntry) {
	tg := iniTargets(t)
	var cands []iniTarget
	for _, it := range tg {
		// (callbacks can be addressed from a file too; they are left out where an equivalent command line is built)
		if (iniAble(it.o) || !oneChain) && !it.o.NoIni {
			cands = append(cands, it)
		}
	}
	if len(cands) == 0 {
		return "", nil
	}
	var chain []string
	if oneChain {
		chain = pick(r, cands).cmdPath
	}
	var lines []string
	var entries []iniEntry
	curSec := ""
	first := true
	for i := 0; i < n; i++ {
		it := pick(r, cands)
		if oneChain {
			ok := len(it.cmdPath) <= len(chain)
			for k := range it.cmdPath {
				if k < len(chain) && it.cmdPath[k] != chain[k] {
					ok = false
				}
			}
			if !ok {
				continue
			}
		}
		sec := sectionFor(r, it)
		if first || sec != curSec {
			if sec == "" && !first {
				// the global section cannot be re-entered once a header was written: address the group instead
				if len(it.cmdPath) == 0 && len(it.groups) > 0 && it.groups[0] != "" {
					sec = it.groups[0]
				} else {
					continue
				}
			}
			if sec != "" {
				hdr := "[" + pick(r, []string{"", " "}) + sec + pick(r, []string{"", " "}) + "]"
				if noise {
					hdr = pad(r, hdr)
				}
				if chance(r, 0.12) {
					// the same header once more, the first time with nothing under it: one section, not two
					lines = append(lines, hdr)
					if chance(r, 0.5) {
						lines = append(lines, pick(r, []string{"", "; nothing here", "# nor here"}))
					}
				}
				lines = append(lines, hdr)
			}
			curSec = sec
			first = false
		}
		name, form := nameFor(r, it)
		raw := iniValueFor(r, it.o, valid || chance(r, 0.8))
		if !oneChain && chance(r, 0.06) {
			raw = "" // `name =`: the empty text is the value (only options that take no argument read it as "no value")
		}
		l := name + pick(r, []string{"=", " = ", " =", "= "}) + raw
		if noise {
			l = pad(r, l)
		}
		lines = append(lines, l)
		entries = append(entries, iniEntry{it: it, value: raw, form: form})
		if noise && chance(r, 0.3) {
			lines = append(lines, pick(r, noiseLines))
		}
	}
	eol := "\n"
	if noise && chance(r, 0.3) {
		eol = "\r\n"
	}
	text := strings.Join(lines, eol)
	if chance(r, 0.8) {
		text += eol
	}
	return text, entries
}

var faultyLines = []string{"[abc", "[]", "[ ]", "[\t]", "justtext", "x", `Fx = "abc`, `F1 = "a"b`, `F1 = "\q"`, "nosuch = 1", "[nosuch]", "[No.Such.Path]",
	"= v", " = ", "=", "[a]]", "]", "a]", "[[a]", "F1", "\xff\xfe", "\x00", "[\xff]", "F1 = \xff", "é = 1", "[=]", "a = b = c", `"F1" = 1`}

func insertLine(text string, line string, at int, eol string) string {
	parts := strings.Split(text, "\n")
	if at > len(parts) {
		at = len(parts)
	}
	out := append([]string{}, parts[:at]...)
	out = append(out, line)
	out = append(out, parts[at:]...)
	return strings.Join(out, "\n")
}

func newSession(t *Tree, id int, tag string) *SessionScn {
	return &SessionScn{Fam: "session", ID: id, Decl: t.ID, POpts: []string{}, Env: []EnvKV{}, Calls: []Call{}, Tags: []string{tag}, Repeat: 1, Presets: []Preset{}}
}

func iniCall(text string, asDefaults bool) Call {
	return Call{Op: "ini", Text: toS(text), AsDefaults: asDefaults, Argv: []S{}, IniOpts: []string{}}
}

func argsCall(argv ...string) Call {
	return Call{Op: "args", Argv: toSs(argv), IniOpts: []string{}, Text: S{}}
}

// C14: structured text with noise, a single fault at a random position, or arbitrary bytes
func genSessionRobust(r *rand.Rand, t *Tree, id int) *SessionScn {
	sc := newSession(t, id, "robust")
	if chance(r, 0.3) {
		sc.POpts = append(sc.POpts, "IgnoreUnknown")
	}
	var text string
	switch r.Intn(10) {
	case 0: // arbitrary bytes
		n := r.Intn(60)
		b := make([]byte, n)
		alphabet := []byte("[]=\"\\;# \t\r\nabF1:.-\xff\xc3\xa9\x00")
		for i := range b {
			if chance(r, 0.8) {
				b[i] = alphabet[r.Intn(len(alphabet))]
			} else {
				b[i] = byte(r.Intn(256))
			}
		}
		text = string(b)
	case 1: // a very long line
		text, _ = genIniText(r, t, 1+r.Intn(3), false, true, true)
		n := 4000 + r.Intn(9000)
		if chance(r, 0.15) {
			n = 66000 + r.Intn(3000) // longer than any fixed 64 KiB buffer
		}
		text = insertLine(text, "; "+strings.Repeat("x", n), r.Intn(4), "\n")
		if chance(r, 0.5) {
			text = insertLine(text, strings.Repeat(" ", 5000)+"; pad", r.Intn(4), "\n")
		}
	default:
		text, _ = genIniText(r, t, 1+r.Intn(5), false, chance(r, 0.7), true)
		if chance(r, 0.55) {
			nl := strings.Count(text, "\n") + 1
			line := pick(r, faultyLines)
			if names := cmdNames(t); len(names) > 0 && chance(r, 0.3) {
				// near misses of section names: a command name with one more character, with a bare dot, with an unknown tail, in other case
				n := pick(r, names)
				line = "[" + pick(r, []string{n + "x", n + "-", n + "1", n + ".", n + ".nosuch", strings.ToUpper(n), n + " ", "x" + n, n + ".." + n,
					n + ".the " + lastPart(n) + " command", n + "." + lastPart(n)}) + "]" // (the command's own description / name as a group name below it)
			}
			text = insertLine(text, line, r.Intn(nl+1), "\n")
			sc.Tags = append(sc.Tags, "fault")
		}
	}
	sc.Calls = append(sc.Calls, iniCall(text, chance(r, 0.2)))
	if chance(r, 0.3) {
		sc.Calls = append(sc.Calls, argsCall())
	}
	return sc
}

// C13: an INI file and the equivalent command line on a fresh parser
func genSessionEquiv(r *rand.Rand, t *Tree, id int) *SessionScn {
	sc := newSession(t, id, "equiv")
	text, entries := genIniText(r, t, 1+r.Intn(4), true, true, chance(r, 0.3))
	asDef := chance(r, 0.3)
	sc.Calls = append(sc.Calls, iniCall(text, asDef))
	// equivalent flags: command words of the deepest entry, then one flag per entry, in order
	var path []string
	for _, e := range entries {
		if len(e.it.cmdPath) > len(path) {
			path = e.it.cmdPath
		}
	}
	var argv []string
	argv = append(argv, path...)
	ok := len(entries) > 0
	for _, e := range entries {
		so := scopeOpt{o: e.it.o, nsLong: e.it.nsLong}
		v := e.value
		// flags have no textual value on the command line: only `true`-like and empty INI values have an equivalent
		if !canArgNode(e.it.o) {
			switch v {
			case "true", "1", "T", "":
				if so.nsLong != "" {
					argv = append(argv, "--"+so.nsLong)
				} else {
					argv = append(argv, "-"+e.it.o.Short)
				}
			default:
				ok = false
			}
			continue
		}
		if e.it.o.Kind == "map" && strings.Contains(v, `:"`) {
			ok = false // the two quoting layers differ by design for map values
			continue
		}
		if so.nsLong != "" {
			argv = append(argv, "--"+so.nsLong+"="+v)
		} else {
			argv = append(argv, "-"+e.it.o.Short+"="+v)
		}
	}
	if ok && !asDef {
		sc.Calls = append(sc.Calls, Call{Op: "fresh", Argv: []S{}, IniOpts: []string{}, Text: S{}})
		sc.Calls = append(sc.Calls, argsCall(argv...))
		sc.Tags = append(sc.Tags, "pair")
	}
	return sc
}

// C05: histories over the value sources
func genSessionSources(r *rand.Rand, t *Tree, id int) *SessionScn {
	sc := newSession(t, id, "sources")
	for _, k := range envPool {
		if chance(r, 0.4) {
			for _, pre := range []string{"", "N_", "M_", "NN_", "N__", "N_M_", "N_N_", "N__M__"} {
				if pre == "" || chance(r, 0.4) {
					sc.Env = append(sc.Env, EnvKV{K: toS(pre + k), V: toS(pick(r, []string{"e1", "5", "", "a,b", "k:1;k2:2", "7,8", "x::y", "k:v"}))})
				}
			}
		}
	}
	// the command line: a few occurrences of options (valid), through the argparse generator
	as := &Scenario{}
	rr := rand.New(rand.NewSource(r.Int63()))
	genArgv(rr, t, as)
	argv := make([]string, len(as.Argv))
	for i, a := range as.Argv {
		argv[i] = a.String()
	}
	if chance(r, 0.3) {
		argv = nil
	}
	h := r.Intn(9)
	iniN, _ := genIniText(r, t, 1+r.Intn(4), false, true, false)
	iniD, _ := genIniText(r, t, 1+r.Intn(4), false, true, false)
	switch h {
	case 0: // normal read, then command line
		sc.Calls = append(sc.Calls, iniCall(iniN, false), argsCall(argv...))
	case 1: // as-defaults read before the command line
		sc.Calls = append(sc.Calls, iniCall(iniD, true), argsCall(argv...))
	case 2: // command line, then as-defaults read
		sc.Calls = append(sc.Calls, argsCall(argv...), iniCall(iniD, true))
	case 3: // normal read, as-defaults read, command line
		sc.Calls = append(sc.Calls, iniCall(iniN, false), iniCall(iniD, true), argsCall(argv...))
	case 4: // only the command line
		sc.Calls = append(sc.Calls, argsCall(argv...))
	case 5: // as-defaults read with repeated keys, then the command line
		sc.Calls = append(sc.Calls, iniCall(iniD+iniD, true), argsCall(argv...))
	case 6: // as-defaults read, command line, another as-defaults read: what the command line set stays
		iniD2, _ := genIniText(r, t, 1+r.Intn(4), false, true, false)
		sc.Calls = append(sc.Calls, iniCall(iniD, true), argsCall(argv...), iniCall(iniD2, true))
	default: // a longer history of three to five calls in any order (a second command line is built afresh)
		for k, n := 0, 3+r.Intn(3); k < n; k++ {
			switch r.Intn(3) {
			case 0:
				txt, _ := genIniText(r, t, 1+r.Intn(3), false, true, false)
				sc.Calls = append(sc.Calls, iniCall(txt, false))
			case 1:
				txt, _ := genIniText(r, t, 1+r.Intn(3), false, true, false)
				sc.Calls = append(sc.Calls, iniCall(txt, true))
			default:
				a2 := &Scenario{}
				genArgv(rand.New(rand.NewSource(r.Int63())), t, a2)
				av := make([]string, len(a2.Argv))
				for i, a := range a2.Argv {
					av[i] = a.String()
				}
				if chance(r, 0.3) {
					av = nil
				}
				sc.Calls = append(sc.Calls, argsCall(av...))
			}
		}
	}
	return sc
}

// ---- C12 round trips: declarations with rich preset values

var rtStrings = []string{"100%", "%s and %d", "50% off%", "", "a", "hello world", " lead", "trail ", "  both  ", `"`, `"quoted"`, `say "hi"`, `back\slash`, "tab\there", "new\nline", "cr\rlf",
	"é", "naïve café", "世界", "\u00a0nbsp", "\u2028ls", "a=b", "a:b", "k:v:w", ";semi", "#hash", "make clean ; make all", "a #b", "x ;", "; y", "[sec]", "=", ":", "\xff", "a\xffb", "\x00", "emoji😀",
	"'single'", "`back`", "a  b", "trailing\\", `"\n"`, "\t", " ", "x" + strings.Repeat("y", 300), strings.Repeat("long ", 1200)}

func rtValue(r *rand.Rand, vt string, base int) string {
	switch {
	case vt == "string":
		if chance(r, 0.15) {
			n := 1 + r.Intn(5)
			b := make([]byte, n)
			alphabet := []byte(" \"\\:=;#[]ab\n\t\xff\xc3\xa9")
			for i := range b {
				b[i] = alphabet[r.Intn(len(alphabet))]
			}
			return string(b)
		}
		return pick(r, rtStrings)
	case vt == "int8":
		return pick(r, []string{"0", "127", "-128", "5", "-1"})
	case vt == "uint8":
		return pick(r, []string{"0", "255", "5"})
	case vt == "int64" || vt == "int":
		return pick(r, []string{"0", "9223372036854775807", "-9223372036854775808", "42", "-7"})
	case vt == "uint" || vt == "uint64":
		return pick(r, []string{"0", "18446744073709551615", "42"})
	case vt == "float64":
		// (-0 is left out: the library's is-default test uses ==, under which -0 equals the default 0; the sign of zero is not judged)
		return pick(r, []string{"0", "1.5", "-2", "1e+100", "0.1", "NaN", "+Inf", "-Inf", "3.4028235e+38", "5e-324"})
	case vt == "duration":
		return pick(r, []string{"0s", "1s", "1h2m3s", "-5m0s", "1.5s"})
	case vt == "bool":
		return pick(r, []string{"true", "false"})
	case vt == "um":
		return "um:" + pick(r, []string{"a", "x y", ""})
	}
	return "0"
}

var rtKeys = []string{"k", "key", "a b", "é", "K2", "x.y", "k=1", "-"}

func genTreeRT(r *rand.Rand, id int) *Tree {
	t := &Tree{ID: id, NsDelim: ".", EnvDelim: "_"}
	n := 0
	mk := func(allowHidden bool) *OptNode {
		n++
		o := &OptNode{Long: "o" + itoa(n)}
		if chance(r, 0.4) {
			o.Short = string(rune('a' + (n-1)%26))
			if n > 26 {
				o.Short = ""
			}
		}
		k := r.Intn(100)
		switch {
		case k < 35:
			o.Kind, o.VType = "scalar", pick(r, []string{"string", "string", "string", "int", "int8", "uint8", "int64", "uint", "float64", "duration"})
		case k < 45:
			o.Kind, o.VType = "flag", "bool"
		case k < 65:
			o.Kind, o.VType = "slice", pick(r, []string{"string", "string", "int", "float64"})
		case k < 82:
			o.Kind, o.VType = "map", pick(r, []string{"string", "string", "int"})
			if chance(r, 0.3) {
				o.KType = "int"
			}
		case k < 95:
			o.Kind, o.VType = "ptr", pick(r, []string{"string", "int", "string"})
		default:
			o.Kind, o.VType = "counter", "bool"
		}
		if (isIntType(o.VType) || o.KType != "") && chance(r, 0.3) {
			o.Base = pick(r, []int{16, 2, 36})
		}
		if chance(r, 0.15) {
			o.IniName = pick(r, []string{"Custom", "ini-" + itoa(n), "MiXed"}) + itoa(n)
		}
		if chance(r, 0.05) {
			o.NoIni = true
		}
		if allowHidden && chance(r, 0.05) {
			o.Hidden = true
		}
		if chance(r, 0.3) {
			o.Desc = "description of " + o.Long
		}
		// presets
		if chance(r, 0.75) {
			switch o.Kind {
			case "scalar", "ptr":
				o.Init = txts(rtValue(r, o.VType, o.Base))
			case "flag":
				o.Init = txts(pick(r, []string{"true", "false"}))
			case "slice":
				for i, m := 0, r.Intn(4); i < m; i++ {
					o.Init = append(o.Init, Txt(rtValue(r, o.VType, o.Base)))
				}
			case "counter":
				for i, m := 0, r.Intn(3); i < m; i++ {
					o.Init = append(o.Init, "true")
				}
			case "map":
				seen := map[string]bool{}
				for i, m := 0, r.Intn(4); i < m; i++ {
					k := pick(r, rtKeys)
					if o.KType != "" {
						k = pick(r, []string{"1", "2", "9", "10", "11", "100", "-3", "0"})
					}
					if seen[k] {
						continue
					}
					seen[k] = true
					o.Init = append(o.Init, Txt(k+":"+rtValue(r, o.VType, o.Base)))
				}
			}
		}
		// default tags (so that "equal to its default" is exercised)
		if chance(r, 0.3) && o.Kind != "flag" && o.Kind != "counter" {
			m := 1
			if o.Kind == "slice" || o.Kind == "map" {
				m = 1 + r.Intn(2)
			}
			for i := 0; i < m; i++ {
				v := rtValue(r, o.VType, o.Base)
				if isIntType(o.VType) && o.Base != 0 {
					v = "1" // a numeral valid in every base
				}
				if o.VType == "float64" {
					v = pick(r, []string{"1.5", "0", "2"})
				}
				if o.VType == "um" {
					v = "d"
				}
				if strings.ContainsAny(v, "\xff\x00") {
					v = "dflt"
				}
				if o.Kind == "map" && o.KType != "" {
					v = pick(r, []string{"1", "10"}) + ":" + v
				} else if o.Kind == "map" {
					v = pick(r, []string{"k", "dk"}) + ":" + v
				}
				o.Defaults = append(o.Defaults, v)
			}
			if chance(r, 0.4) { // make the preset equal to the default
				o.Init = nil
				for _, d := range o.Defaults {
					dv := d
					if isIntType(o.VType) || o.KType != "" {
						k, v := "", d
						if o.Kind == "map" {
							k, v = splitKV(d)
							if o.KType != "" {
								k = canonInt(k, o.Base)
							}
							k += ":"
						}
						if isIntType(o.VType) {
							v = canonInt(v, o.Base)
						}
						dv = k + v
					}
					if o.VType == "float64" || o.VType == "duration" || o.VType == "um" {
						o.Init = nil
						break
					}
					o.Init = append(o.Init, Txt(dv))
				}
				if o.Kind == "scalar" || o.Kind == "ptr" {
					if len(o.Init) > 1 {
						o.Init = o.Init[len(o.Init)-1:]
					}
				}
			}
		}
		return o
	}
	grp := func(desc string, k int, depth int) *GroupNode {
		g := &GroupNode{Desc: desc}
		for i := 0; i < k; i++ {
			g.Opts = append(g.Opts, mk(true))
		}
		return g
	}
	root := &CmdNode{Name: "app", Style: "root"}
	g0 := grp("Application Options", 2+r.Intn(5), 1)
	if chance(r, 0.5) {
		sg := grp("Nested "+itoa(r.Intn(50)), 1+r.Intn(3), 0)
		if chance(r, 0.5) {
			sg.Ns = pick(r, nsPool)
		}
		sg.Hidden = chance(r, 0.1)
		g0.Groups = append(g0.Groups, sg)
	}
	root.Extra = append(root.Extra, g0)
	if chance(r, 0.4) {
		root.Extra = append(root.Extra, grp("Second Group", 1+r.Intn(3), 0))
	}
	if chance(r, 0.5) {
		root.SubOpt = true
		nc := 1 + r.Intn(2)
		for i := 0; i < nc; i++ {
			c := &CmdNode{Name: pick(r, []string{"add", "rm", "show"}) + itoa(i), Style: pick(r, []string{"tag", "prog", "exec"}), SubOpt: true}
			c.Hidden = chance(r, 0.1)
			if c.Style == "exec" {
				c.Extra = append(c.Extra, grp("Cmd Group "+itoa(i), 1+r.Intn(3), 0))
			} else {
				c.Own = grp("", 1+r.Intn(3), 0)
				if chance(r, 0.3) {
					c.Extra = append(c.Extra, grp("Cmd Extra "+itoa(i), 1+r.Intn(2), 0))
				}
			}
			if chance(r, 0.3) {
				sub := &CmdNode{Name: "sub" + itoa(i), Style: "exec", SubOpt: true}
				sub.Extra = append(sub.Extra, grp("Sub Group "+itoa(i), 1+r.Intn(2), 0))
				if chance(r, 0.4) { // a third level: its section is named by the whole path (top.sub.leaf)
					leaf := &CmdNode{Name: "leaf" + itoa(i), Style: "exec", SubOpt: true}
					leaf.Extra = append(leaf.Extra, grp("Leaf Group "+itoa(i), 1+r.Intn(2), 0))
					sub.Cmds = append(sub.Cmds, leaf)
				}
				c.Cmds = append(c.Cmds, sub)
			}
			root.Cmds = append(root.Cmds, c)
		}
		// tag-declared first
		var tg, ot []*CmdNode
		for _, c := range root.Cmds {
			if c.Style == "tag" {
				tg = append(tg, c)
			} else {
				ot = append(ot, c)
			}
		}
		root.Cmds = append(tg, ot...)
	}
	t.Root = root
	return t
}

var iniOptCombos = [][]string{{}, {"IncludeDefaults"}, {"CommentDefaults"}, {"IncludeComments"}, {"IncludeDefaults", "CommentDefaults"},
	{"IncludeDefaults", "IncludeComments"}, {"CommentDefaults", "IncludeComments"}, {"IncludeDefaults", "CommentDefaults", "IncludeComments"}}

func genSessionRoundTrip(r *rand.Rand, t *Tree, id int) *SessionScn {
	sc := newSession(t, id, "roundtrip")
	// parser A: presets, then a parse (so that defaults are applied as in any program), then the write;
	// parser B: fresh, reads what A wrote, then a parse applies the defaults of the omitted options
	// (a third of the round trips go through a file that already exists: WriteFile / ParseFile)
	viaW, viaR := chance(r, 0.3), chance(r, 0.3)
	if chance(r, 0.3) {
		// the writing parser first parses an empty vector (defaults applied), then a vector that sets some options explicitly
		a2 := &Scenario{}
		genArgv(rand.New(rand.NewSource(r.Int63())), t, a2)
		av := make([]string, len(a2.Argv))
		for i, a := range a2.Argv {
			av[i] = a.String()
		}
		sc.Calls = append(sc.Calls,
			argsCall(),
			argsCall(av...),
			Call{Op: "write", IniOpts: pick(r, iniOptCombos), Argv: []S{}, Text: S{}, ViaFile: viaW},
			Call{Op: "fresh", Argv: []S{}, IniOpts: []string{}, Text: S{}},
			Call{Op: "ini", FromWrite: 3, Argv: []S{}, IniOpts: []string{}, Text: S{}, ViaFile: viaR},
			argsCall())
		return sc
	}
	sc.Calls = append(sc.Calls,
		argsCall(),
		Call{Op: "write", IniOpts: pick(r, iniOptCombos), Argv: []S{}, Text: S{}, ViaFile: viaW},
		Call{Op: "fresh", Argv: []S{}, IniOpts: []string{}, Text: S{}},
		Call{Op: "ini", FromWrite: 2, Argv: []S{}, IniOpts: []string{}, Text: S{}, ViaFile: viaR},
		argsCall())
	return sc
}

// C15: inputs whose outcome would depend on map iteration order if anything ranged over a map unsorted
func genSessionDeterminism(r *rand.Rand, t *Tree, id int, repeat int) *SessionScn {
	sc := newSession(t, id, "determinism")
	sc.Repeat = repeat
	tg := iniTargets(t)
	var rootOpts []iniTarget
	for _, it := range tg {
		if len(it.cmdPath) == 0 && iniAble(it.o) && !it.o.NoIni && len(it.groups) > 0 && it.groups[0] != "" {
			rootOpts = append(rootOpts, it)
		}
	}
	switch r.Intn(4) {
	case 0: // the same option set from several sections
		if len(rootOpts) == 0 {
			break
		}
		it := pick(r, rootOpts)
		o := it.o
		v1, v2 := iniValueFor(r, o, true), iniValueFor(r, o, true)
		text := o.field + " = " + v1 + "\n[" + it.groups[0] + "]\n" + o.field + " = " + v2 + "\n"
		if len(it.groups) > 1 {
			text += "[" + it.groups[len(it.groups)-1] + "]\n" + o.field + " = " + iniValueFor(r, o, true) + "\n"
		}
		sc.Calls = append(sc.Calls, iniCall(text, false))
		sc.Tags = append(sc.Tags, "multi-section")
	case 1: // two faulty sections
		text := "nosuch1 = 1\n[Application Options]\nnosuch2 = 2\n[Nope]\nx = 1\n[Nope2]\ny = 2\n"
		sc.Calls = append(sc.Calls, iniCall(text, false))
		sc.Tags = append(sc.Tags, "two-faults")
	case 2: // written maps
		sc.Calls = append(sc.Calls, Call{Op: "write", IniOpts: pick(r, iniOptCombos), Argv: []S{}, Text: S{}})
		sc.Tags = append(sc.Tags, "write")
	default: // a structured file over several sections
		text, _ := genIniText(r, t, 3+r.Intn(5), false, chance(r, 0.7), false)
		sc.Calls = append(sc.Calls, iniCall(text, chance(r, 0.3)))
		if chance(r, 0.5) {
			sc.Calls = append(sc.Calls, Call{Op: "write", IniOpts: pick(r, iniOptCombos), Argv: []S{}, Text: S{}})
		}
	}
	if len(sc.Calls) == 0 {
		sc.Calls = append(sc.Calls, Call{Op: "write", IniOpts: []string{"IncludeDefaults"}, Argv: []S{}, Text: S{}})
	}
	return sc
}

// cmdNames lists the command names of a tree, as dotted paths from the root.
func cmdNames(t *Tree) []string {
	var out []string
	var walk func(c *CmdNode, prefix string)
	walk = func(c *CmdNode, prefix string) {
		for _, sc := range c.Cmds {
			out = append(out, prefix+sc.Name)
			walk(sc, prefix+sc.Name+".")
		}
	}
	walk(t.Root, "")
	return out
}

func lastPart(path string) string {
	if i := strings.LastIndex(path, "."); i >= 0 {
		return path[i+1:]
	}
	return path
}

// decorateFieldAliases lets some options of nested groups carry the Go field name of an option of an enclosing group
// (Host / Database.Host): the INI reader ranks a key that equals the field name above long and short names and, among
// equals, takes the first option in traversal order of the section's group.
func decorateFieldAliases(r *rand.Rand, t *Tree, p float64) {
	Flatten(t)
	var walkG func(g *GroupNode, above []*OptNode)
	walkG = func(g *GroupNode, above []*OptNode) {
		used := map[string]bool{}
		for _, o := range g.Opts {
			used[o.field] = true
		}
		for _, o := range g.Opts {
			if len(above) == 0 || o.FieldAlias != "" || !chance(r, p) {
				continue
			}
			a := pick(r, above)
			if used[a.field] {
				continue
			}
			delete(used, o.field)
			o.FieldAlias, o.field = a.field, a.field
			used[a.field] = true
		}
		for _, sg := range g.Groups {
			walkG(sg, append(append([]*OptNode{}, above...), g.Opts...))
		}
	}
	var walkC func(c *CmdNode)
	walkC = func(c *CmdNode) {
		if c.Own != nil {
			walkG(c.Own, nil)
		}
		for _, g := range c.Extra {
			walkG(g, nil)
		}
		for _, sc := range c.Cmds {
			walkC(sc)
		}
	}
	walkC(t.Root)
}

// decorateInline moves the last options of some groups into an untagged struct field (by value or behind a non-nil
// pointer).  The library flattens such a field into the enclosing group; the declaration TLC reads does not change.
func decorateInline(r *rand.Rand, t *Tree, p float64) {
	var walkG func(g *GroupNode)
	walkG = func(g *GroupNode) {
		if len(g.Opts) > 0 && chance(r, p) {
			g.Inline = pick(r, []string{"ptr", "ptr", "val"})
			g.InlineFrom = r.Intn(len(g.Opts))
		}
		for _, sg := range g.Groups {
			walkG(sg)
		}
	}
	var walkC func(c *CmdNode)
	walkC = func(c *CmdNode) {
		if c.Own != nil {
			walkG(c.Own)
		}
		for _, g := range c.Extra {
			walkG(g)
		}
		for _, sc := range c.Cmds {
			walkC(sc)
		}
	}
	walkC(t.Root)
}

// decorateIniNames gives some options an ini-name: mostly harmless ones, now and then one that collides - with another
// option's ini-name (also in other letter case), field name, long name or short name.  The reader prefers ini-name over
// field name over long name over short name and, among equals, the first in traversal order.
func decorateIniNames(r *rand.Rand, t *Tree) {
	Flatten(t)
	var all []*OptNode
	var walkG func(g *GroupNode)
	walkG = func(g *GroupNode) {
		all = append(all, g.Opts...)
		for _, sg := range g.Groups {
			walkG(sg)
		}
	}
	var walkC func(c *CmdNode)
	walkC = func(c *CmdNode) {
		if c.Own != nil {
			walkG(c.Own)
		}
		for _, g := range c.Extra {
			walkG(g)
		}
		for _, sc := range c.Cmds {
			walkC(sc)
		}
	}
	walkC(t.Root)
	for _, o := range all {
		if o.Kind == "func0" || o.Kind == "func1" || !chance(r, 0.2) {
			continue
		}
		other := pick(r, all)
		switch r.Intn(6) {
		case 0:
			o.IniName = pick(r, []string{"Custom", "custom", "MiXed", "mixed", "k"})
		case 1:
			o.IniName = other.field
		case 2:
			if other.Long != "" {
				o.IniName = other.Long
			}
		case 3:
			if other.Short != "" {
				o.IniName = other.Short
			}
		default:
			o.IniName = "ini-" + o.field
		}
	}
}
