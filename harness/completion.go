package main

// Family "completion" (C18): already typed words plus a partial last word, through ParseArgs with
// GO_FLAGS_COMPLETION set and a CompletionHandler; every offered option / command name is then
// appended to the typed words and parsed by a fresh parser in normal mode.

import (
	"encoding/json"
	"fmt"
	"math/rand"
	"os"
	"strings"

	flags "github.com/jessevdk/go-flags"
)

type CompScn struct {
	Fam   string   `json:"fam"`
	ID    int      `json:"id"`
	Decl  int      `json:"decl"`
	POpts []string `json:"popts"`
	Words []S      `json:"words"`
	// LateGroup: the top-level groups marked late are added to the parser (AddGroup) after a first completion of the same
	// words; the judged completion is the second one
	LateGroup bool     `json:"lateGroup"`
	Tags      []string `json:"tags"`
	Obs       *CompObs `json:"obs,omitempty"`
}

type CompObs struct {
	Panic    bool     `json:"panic"`
	Timeout  bool     `json:"timeout"`
	PanicMsg S        `json:"panicMsg"`
	Called   bool     `json:"called"` // the CompletionHandler was invoked
	Items    []S      `json:"items"`
	Accept   []string `json:"accept"` // per item: error type of the parse of typed words + item ("skip" when the item is a value)
	Executed bool     `json:"executed"`
	RetNil   bool     `json:"retNil"` // ParseArgs returned (nil, nil)
	Repeat   int      `json:"repeat"`
	Distinct int      `json:"distinct"`
}

func runCompletionOnce(t *Tree, sc *CompScn) *CompObs {
	obs := &CompObs{Items: []S{}, Accept: []string{}}
	b := buildWith(t, poptsOf(sc.POpts), true, sc.LateGroup)
	if b.err != nil {
		obs.Panic = true
		obs.PanicMsg = toS("setup: " + b.err.Error())
		return obs
	}
	var items []flags.Completion
	b.p.CompletionHandler = func(it []flags.Completion) {
		obs.Called = true
		items = it
	}
	b.p.CommandHandler = func(cmd flags.Commander, args []string) error {
		obs.Executed = true
		return nil
	}
	words := make([]string, len(sc.Words))
	for i, w := range sc.Words {
		words[i] = w.String()
	}
	os.Setenv("GO_FLAGS_COMPLETION", "1")
	if sc.LateGroup {
		func() {
			defer func() { recover() }()
			b.p.ParseArgs(words)
		}()
		b.AttachLate()
		obs.Called = false
		items = nil
	}
	var rest []string
	var err error
	func() {
		defer func() {
			if r := recover(); r != nil {
				obs.Panic = true
				obs.PanicMsg = toS(fmt.Sprint(r))
			}
		}()
		rest, err = b.p.ParseArgs(words)
	}()
	os.Unsetenv("GO_FLAGS_COMPLETION")
	if obs.Panic {
		return obs
	}
	obs.RetNil = rest == nil && err == nil
	for _, e := range b.log.evs {
		if e["k"] == "exec" {
			obs.Executed = true
		}
	}
	for _, it := range items {
		obs.Items = append(obs.Items, toS(it.Item))
	}
	// acceptance of every offered option / command name at that position
	typed := words
	if len(typed) > 0 {
		typed = typed[:len(typed)-1]
	}
	for _, it := range items {
		name := it.Item
		isOptName := strings.HasPrefix(name, "-") && !strings.Contains(name, "=")
		isWord := !strings.HasPrefix(name, "-")
		if !isOptName && !isWord {
			obs.Accept = append(obs.Accept, "skip")
			continue
		}
		b2 := buildWith(t, poptsOf(sc.POpts), true, sc.LateGroup)
		if sc.LateGroup && b2.err == nil {
			func() {
				defer func() { recover() }()
				so, se := os.Stdout, os.Stderr
				os.Stdout, os.Stderr = capOut, capErr
				b2.p.ParseArgs([]string{})
				os.Stdout, os.Stderr = so, se
			}()
			b2.AttachLate()
			b2.log.evs = nil
		}
		o2 := emptyObs()
		func() {
			defer func() {
				if r := recover(); r != nil {
					o2.ErrType = "panic"
				}
			}()
			so, se := os.Stdout, os.Stderr
			os.Stdout, os.Stderr = capOut, capErr
			_, e2 := b2.p.ParseArgs(append(append([]string{}, typed...), name))
			os.Stdout, os.Stderr = so, se
			classifyErr(e2, o2)
			// an unknown-flag / unknown-command error must name something else than the offered item to be excused
			if (o2.ErrType == "ErrUnknownFlag" || o2.ErrType == "ErrUnknownCommand") && o2.ErrWord.String() != strings.TrimLeft(name, "-") && o2.ErrWord.String() != name {
				o2.ErrType += ":other"
			}
		}()
		obs.Accept = append(obs.Accept, o2.ErrType)
	}
	return obs
}

func runCompletion(t *Tree, sc *CompScn, repeat int) {
	sc.Obs = runCompletionOnce(t, sc)
	sc.Obs.Repeat, sc.Obs.Distinct = 1, 1
	if repeat > 1 {
		first, _ := json.Marshal(sc.Obs.Items)
		seen := map[string]bool{string(first): true}
		for i := 1; i < repeat; i++ {
			o := runCompletionOnce(t, sc)
			j, _ := json.Marshal(o.Items)
			seen[string(j)] = true
		}
		sc.Obs.Repeat, sc.Obs.Distinct = repeat, len(seen)
	}
}

func init() {
	families["completion"] = family{
		run: func(trees []*Tree, line []byte) any {
			sc := &CompScn{}
			if err := json.Unmarshal(line, sc); err != nil {
				die(2, "completion scenario: %v", err)
			}
			if sc.Decl < 1 || sc.Decl > len(trees) {
				die(2, "completion scenario %d refers to unknown declaration %d", sc.ID, sc.Decl)
			}
			rep := 1
			for _, tg := range sc.Tags {
				if strings.HasPrefix(tg, "repeat=") {
					fmt.Sscanf(tg, "repeat=%d", &rep)
				}
			}
			runCompletion(trees[sc.Decl-1], sc, rep)
			return sc
		},
		crash: func(line []byte, timeout bool, msg string) any {
			sc := &CompScn{}
			json.Unmarshal(line, sc)
			sc.Obs = &CompObs{Panic: !timeout, Timeout: timeout, PanicMsg: toS(msg), Items: []S{}, Accept: []string{}}
			return sc
		},
	}
}

// genCompletion: a valid prefix (through the argparse generator with validity bias) cut at a random point, plus a partial word
func genCompletion(r *rand.Rand, t *Tree, id int) *CompScn {
	sc := &CompScn{Fam: "completion", ID: id, Decl: t.ID, POpts: []string{}, Tags: []string{}}
	for _, n := range []string{"HelpFlag", "PassDoubleDash", "IgnoreUnknown", "PassAfterNonOption"} {
		p := map[string]float64{"HelpFlag": 0.5, "PassDoubleDash": 0.6, "IgnoreUnknown": 0.1, "PassAfterNonOption": 0.1}[n]
		if chance(r, p) {
			sc.POpts = append(sc.POpts, n)
		}
	}
	as := &Scenario{}
	genArgv(rand.New(rand.NewSource(r.Int63())), t, as)
	var words []string
	for _, a := range as.Argv {
		words = append(words, a.String())
	}
	if len(words) > 0 {
		words = words[:r.Intn(len(words)+1)]
	}
	// the partial last word
	var last string
	switch r.Intn(12) {
	case 0:
		last = ""
	case 1:
		last = "-"
	case 2:
		last = "--"
	case 3, 4:
		lp := []rune(pick(r, longPool))
		k := 1 + r.Intn(2)
		if k > len(lp) {
			k = len(lp)
		}
		last = "--" + string(lp[:k])
	case 5:
		last = "-" + pick(r, shortPool)
	case 6:
		last = "--" + pick(r, longPool) + "="
	case 7:
		last = "--" + pick(r, longPool) + "=" + pick(r, []string{"a", "al", "b", "be ", "g"})
	case 8:
		last = "-" + pick(r, shortPool) + pick(r, []string{"a", "al", "b", "=a", "=be"})
	case 9:
		last = string([]rune(pick(r, cmdPool))[:1])
	case 10:
		last = pick(r, []string{"a", "al", "b", "be", "g", "x"})
	default:
		tg := iniTargets(t)
		if len(tg) > 0 {
			it := pick(r, tg)
			if it.nsLong != "" {
				nl := []rune(it.nsLong)
				last = "--" + string(nl[:r.Intn(len(nl)+1)])
				if chance(r, 0.3) {
					last = "--" + it.nsLong + "=" + pick(r, []string{"", "a", "be"})
				}
			}
			if it.o.Short != "" && canArgNode(it.o) && chance(r, 0.4) {
				// the value attached to a declared short name (whatever its width in bytes), plain or after '='
				last = "-" + it.o.Short + pick(r, []string{"", "a", "al", "b", "be", "=", "=a", "=g"})
			}
		}
	}
	if chance(r, 0.08) {
		// a plain word right after the terminator (perhaps one filled positional in between) on a parser with PassDoubleDash
		words = append(words, "--")
		if chance(r, 0.4) {
			words = append(words, pick(r, []string{"alpha", "x", "1"}))
		}
		last = pick(r, []string{"", "a", "al", "b", "be", "g"})
		has := false
		for _, p := range sc.POpts {
			has = has || p == "PassDoubleDash"
		}
		if !has {
			sc.POpts = append(sc.POpts, "PassDoubleDash")
		}
	}
	words = append(words, last)
	sc.Words = toSs(words)
	for _, g := range t.Root.Extra {
		if g.Late {
			sc.LateGroup = chance(r, 0.5)
		}
	}
	return sc
}
