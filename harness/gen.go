package main

// Seeded generators: random declaration trees and validity-biased argument
// vectors (a valid skeleton perturbed at 0-2 places).

import (
	"math/rand"
	"strings"
)

var shortPool = []string{"a", "b", "c", "d", "e", "f", "g", "v", "x", "n", "h", "é", "世", "Z", "5", "z", "V", "A"}
var longPool = []string{"alpha", "al", "alp", "beta", "verbose", "ver", "num", "name", "nam", "list", "map", "out", "help",
	"naïve", "force", "for", "a-b", "x.y", "Alpha", "世界", "opt", "cfg", "dry-run", "k", "dry_run", "max_size"}
var cmdPool = []string{"add", "ad", "rm", "remote", "run", "fast", "show", "sh", "list", "dbg", "x", "naïve", "add-all", "commit", "co", "Add", "subCmd"}
var nsPool = []string{"g", "h", "net", "db", "x.y", "ü"}
var envPool = []string{"VF_A", "VF_B", "VF_C", "VF_D", "VF_E"}
var descWords = []string{"Application Options", "Group One", "Extra", "Net", "Storage", "Misc", "Advanced"}

func pick[T any](r *rand.Rand, xs []T) T { return xs[r.Intn(len(xs))] }

func chance(r *rand.Rand, p float64) bool { return r.Float64() < p }

type nameSpace struct {
	shorts map[string]bool
	longs  map[string]bool
}

func newNS() *nameSpace { return &nameSpace{map[string]bool{}, map[string]bool{}} }

var scalarTypes = []string{"string", "string", "string", "int", "int", "int8", "uint8", "int64", "uint", "float64", "duration", "um", "us", "bool", "tb"}
var intBases = []int{0, 0, 0, 0, 16, 2, 36, 8}

func isIntType(t string) bool {
	return strings.HasPrefix(t, "int") || strings.HasPrefix(t, "uint")
}

// completerBias makes the generators use the Completer type (cc) for string-typed options and positionals
var completerBias = false

func genOpt(r *rand.Rand, ns *nameSpace, nsPrefix string, allowReq bool) *OptNode {
	o := genOptRaw(r, ns, nsPrefix, allowReq)
	if o != nil && completerBias && o.VType == "string" && len(o.Choices) == 0 && !o.Validator && (o.Kind == "scalar" || o.Kind == "slice" || o.Kind == "ptr") && chance(r, 0.6) {
		o.VType = "cc"
		o.Init = nil
	}
	return o
}

func genOptRaw(r *rand.Rand, ns *nameSpace, nsPrefix string, allowReq bool) *OptNode {
	o := &OptNode{}
	// names, unique within the command (long names compared with their namespace)
	for tries := 0; tries < 20; tries++ {
		s, l := "", ""
		if chance(r, 0.75) {
			s = pick(r, shortPool)
		}
		if s == "" || chance(r, 0.7) {
			l = pick(r, longPool)
		}
		if (s != "" && ns.shorts[s]) || (l != "" && ns.longs[nsPrefix+l]) {
			continue
		}
		o.Short, o.Long = s, l
		break
	}
	if o.Short == "" && o.Long == "" {
		return nil
	}
	if o.Short != "" {
		ns.shorts[o.Short] = true
	}
	if o.Long != "" {
		ns.longs[nsPrefix+o.Long] = true
	}
	k := r.Intn(100)
	switch {
	case k < 18:
		o.Kind = "flag"
		o.VType = "bool"
	case k < 24:
		o.Kind = "counter"
		o.VType = "bool"
	case k < 27:
		o.Kind = "ptrflag"
		o.VType = "bool"
	case k < 55:
		o.Kind = "scalar"
		o.VType = pick(r, scalarTypes)
		if o.VType == "bool" {
			o.Kind = "flag"
		}
	case k < 65:
		o.Kind = "slice"
		o.VType = pick(r, []string{"string", "string", "int", "uint8", "um"})
	case k < 68:
		o.Kind = "sliceptr"
		o.VType = pick(r, []string{"int", "string", "float64"})
	case k < 78:
		o.Kind = "map"
		o.VType = pick(r, []string{"string", "string", "int"})
		if chance(r, 0.3) {
			o.KType = pick(r, []string{"int", "int", "uint8"}) // keys are converted like values, with the option's base
		}
	case k < 86:
		o.Kind = "ptr"
		o.VType = pick(r, []string{"string", "int", "int8"})
	case k < 92:
		o.Kind = "func0"
		o.VType = ""
	default:
		o.Kind = "func1"
		o.VType = pick(r, []string{"string", "string", "int", "us", "um"})
		if chance(r, 0.3) {
			o.Param = pick(r, []string{"slice", "map", "ptr"}) // func([]T), func(map[string]T), func(*T)
		}
	}
	if (isIntType(o.VType) || o.KType != "") && o.Kind != "flag" {
		o.Base = pick(r, intBases)
	}
	canArg := !(o.Kind == "flag" || o.Kind == "counter" || o.Kind == "ptrflag" || o.Kind == "func0")
	if canArg && chance(r, 0.12) {
		o.Optional = true
		n := r.Intn(3)
		if o.Kind != "slice" && o.Kind != "map" && n > 1 {
			n = 1
		}
		for i := 0; i < n; i++ {
			o.OptVals = append(o.OptVals, validValue(r, o))
		}
	}
	if allowReq && chance(r, 0.15) {
		o.Required = true
		o.ReqField = chance(r, 0.2) // made required through the public field after construction
	}
	// (a default tag on an option whose type is bool underneath - also the bool-kinded Unmarshaler - is a setup error: C19's subject)
	boolUnder := o.VType == "tb" && o.Kind != "map" && o.Kind != "func1"
	if canArg && !boolUnder && chance(r, 0.2) {
		n := 1
		if (o.Kind == "slice" || o.Kind == "map" || o.Kind == "sliceptr" || o.Kind == "func1") && chance(r, 0.5) {
			n = 2
		}
		for i := 0; i < n; i++ {
			o.Defaults = append(o.Defaults, validValue(r, o))
		}
	}
	if canArg && chance(r, 0.15) {
		o.Env = pick(r, envPool)
		if (o.Kind == "slice" || o.Kind == "map" || o.Kind == "sliceptr" || o.Kind == "func1") && chance(r, 0.6) {
			o.EnvDelim = pick(r, []string{",", ";", "::"})
		}
	}
	if (o.Kind == "scalar" || o.Kind == "slice") && o.VType == "string" && chance(r, 0.12) {
		o.Choices = pick(r, [][]string{{"a", "ab", "b c"}, {"b c", "a", "ab"}, {"ab", "b c", "a"}})[:1+r.Intn(3)]
		o.Defaults = nil
		o.OptVals = nil
	}
	if o.Kind == "flag" && chance(r, 0.03) {
		o.Choices = []string{"a"} // accepted by the library; see C04
	}
	if (o.Kind == "scalar" || o.Kind == "slice" || o.Kind == "ptr") && isIntType(o.VType) && o.Base == 0 && chance(r, 0.1) {
		// choices on a non-text type: the choice test comes before the conversion
		o.Choices = pick(r, [][]string{{"1", "2", "10"}, {"7"}, {"5", "007"}})
		o.Defaults = nil
		o.OptVals = nil
	}
	if chance(r, 0.25) {
		// a description, so that a help request inside ParseArgs lays out real rows (namespaces make the names wide)
		o.Desc = pick(r, []string{"d", "some description", "a longer description of this option that will be wrapped at the terminal width", "naïve 世界", "100% sure"})
	}
	if o.Kind == "scalar" && o.VType == "string" && len(o.Choices) == 0 && chance(r, 0.08) {
		o.Validator = true
	}
	if canArg && chance(r, 0.06) {
		o.NoUnquote = true
	}
	if o.Kind == "func0" && chance(r, 0.08) {
		o.ErrPtr = true
		return o
	}
	if (o.Kind == "func0" || o.Kind == "func1") && o.Param == "" && chance(r, 0.3) {
		v := ""
		if o.Kind == "func1" {
			v = validValue(r, o)
			if isIntType(o.VType) {
				v = canonInt(v, o.Base)
			}
		}
		o.FailOn = &v
		if o.Kind == "func0" && chance(r, 0.7) {
			o.FailOn = nil
			o.ErrFunc = true
		}
	}
	if chance(r, 0.1) {
		o.Hidden = true
	}
	// presets
	if chance(r, 0.1) {
		switch o.Kind {
		case "scalar":
			if o.VType == "string" {
				o.Init = txts("preset")
			} else if o.VType == "int" {
				o.Init = txts("41")
			}
		case "slice":
			if o.VType == "string" {
				o.Init = txts("p1", "p2")
			}
		case "map":
			if o.VType == "string" && o.KType == "" {
				o.Init = txts("pk:pv")
			} else if o.VType == "string" {
				o.Init = txts("9:pv", "10:pw")
			}
		}
	}
	return o
}

func canonInt(v string, base int) string {
	// the generator only asks for small valid numerals here
	if base == 0 {
		base = 10
	}
	n := int64(0)
	neg := false
	for i, c := range v {
		if i == 0 && (c == '-' || c == '+') {
			neg = c == '-'
			continue
		}
		d := int64(0)
		switch {
		case c >= '0' && c <= '9':
			d = int64(c - '0')
		case c >= 'a' && c <= 'z':
			d = int64(c-'a') + 10
		case c >= 'A' && c <= 'Z':
			d = int64(c-'A') + 10
		}
		n = n*int64(base) + d
	}
	if neg {
		n = -n
	}
	return itoa(int(n))
}

var stringVals = []string{"a", "v1", "hello", "", "=a", "a=b", "x y", `"q w"`, "`d`", "a:b", "-", "é", "k:v", "世界", `"a\"b"`, "5", "true", "a:b:c", "'s'", "`t`"}
var oddStringVals = []string{"--", "-5", "-x", "--x", "--alpha", `"`, `"abc`, `"a"b`, "-é", "---", `"\n"`, `"\x41"`, `"é"`, "\xff", "a\x00b", "!bang", "50%d", "%s", "100%"}

func validValue(r *rand.Rand, o *OptNode) string {
	if len(o.Choices) > 0 {
		return pick(r, o.Choices)
	}
	vt := o.VType
	var v string
	switch {
	case vt == "string" || vt == "um" || vt == "us" || vt == "cc":
		v = pick(r, stringVals[:12])
		if (vt == "um" || vt == "us") && strings.HasPrefix(v, "!") {
			v = "u"
		}
	case vt == "int8":
		v = pick(r, []string{"5", "-5", "0", "127", "-128", "7", "+3", "007"})
	case vt == "uint8":
		v = pick(r, []string{"5", "0", "255", "7", "007"})
	case vt == "uint":
		v = pick(r, []string{"5", "0", "1000", "7"})
	case isIntType(vt):
		v = pick(r, []string{"5", "-5", "0", "42", "-1", "7", "+3", "007", "1000", "010", "0123", "-017"})
	case vt == "float64":
		v = pick(r, []string{"1.5", "-2", "0", "1e3", "0.25"})
	case vt == "duration":
		v = pick(r, []string{"1s", "2m", "0", "1h2m3s", "-5m"})
	case vt == "bool":
		v = pick(r, []string{"true", "false", "1", "0"})
	case vt == "tb":
		v = pick(r, []string{"on", "off"})
	}
	if isIntType(vt) {
		switch o.Base {
		case 2:
			v = pick(r, []string{"101", "0", "1", "-11", "0010"})
			if strings.HasPrefix(vt, "uint") {
				v = strings.TrimPrefix(v, "-")
			}
		case 16:
			v = pick(r, []string{"ff", "7F", "0", "a", "-1f", "10"})
			if strings.HasPrefix(vt, "uint") {
				v = strings.TrimPrefix(v, "-")
			}
			if vt == "int8" {
				v = pick(r, []string{"7f", "-80", "a", "0"})
			}
		case 36:
			v = pick(r, []string{"z", "10", "0", "-a", "Zz"})
			if strings.HasPrefix(vt, "uint") {
				v = strings.TrimPrefix(v, "-")
			}
			if vt == "int8" || vt == "uint8" {
				v = pick(r, []string{"z", "1", "0", "3j"})
			}
		case 8:
			v = pick(r, []string{"17", "0", "7", "-10", "007"})
			if strings.HasPrefix(vt, "uint") {
				v = strings.TrimPrefix(v, "-")
			}
		}
	}
	if o.Kind == "map" || o.Param == "map" {
		if o.KType != "" { // numerals valid in every base, now and then one that is not (or not a numeral at all)
			k := pick(r, []string{"1", "0", "10", "11", "101", "1", "10", "7", "9", "12", "-1", "+1", "010", "k", ""})
			return k + ":" + v
		}
		return pick(r, []string{"k", "key", "a", "é", "k2"}) + ":" + v
	}
	return v
}

func invalidValue(r *rand.Rand, o *OptNode) string {
	if len(o.Choices) > 0 {
		return pick(r, []string{"A", "abc", "", "a ", "b", "c"})
	}
	vt := o.VType
	switch {
	case vt == "string":
		return pick(r, oddStringVals)
	case vt == "um" || vt == "us":
		return "!no"
	case vt == "tb":
		return pick(r, []string{"true", "", "ON", "1"})
	case vt == "int8":
		return pick(r, []string{"128", "-129", "x", "", "1.0", " 5", "5 ", "1_0", "0x10", "--5", "٣"})
	case vt == "uint8":
		return pick(r, []string{"256", "-1", "x", "", "+5", "1e2"})
	case vt == "uint":
		return pick(r, []string{"-1", "x", "", "18446744073709551616", "+1"})
	case isIntType(vt):
		return pick(r, []string{"x", "", "5%d", "9223372036854775808", "-9223372036854775809", "1.5", "1_000", "0x1f", " 1", "12a", "0b101", "0o17", "0x10", "1_0"})
	case vt == "float64":
		return pick(r, []string{"x", "", "1e400", "1.5.2"})
	case vt == "duration":
		return pick(r, []string{"5", "x", "", "1d"})
	}
	return "?"
}

func genGroup(r *rand.Rand, ns *nameSpace, nsPrefix, delim string, depth int, nopts int, allowReq bool, desc string) *GroupNode {
	g := &GroupNode{Desc: desc}
	for i := 0; i < nopts; i++ {
		if o := genOpt(r, ns, nsPrefix, allowReq); o != nil {
			g.Opts = append(g.Opts, o)
		}
	}
	if depth > 0 && chance(r, 0.35) {
		n := 1 + r.Intn(2)
		for i := 0; i < n; i++ {
			sns := ""
			if chance(r, 0.6) {
				sns = pick(r, nsPool)
			}
			pre := nsPrefix
			if sns != "" {
				pre = nsPrefix + sns + delim
			}
			sg := genGroup(r, ns, pre, delim, depth-1, 1+r.Intn(3), allowReq, pick(r, descWords[1:])+" "+itoa(r.Intn(90)))
			sg.Ns = sns
			if chance(r, 0.4) {
				sg.EnvNs = pick(r, []string{"N", "M", "NN"})
			}
			sg.Ptr = chance(r, 0.3)
			sg.Hidden = chance(r, 0.1)
			g.Groups = append(g.Groups, sg)
		}
	}
	if chance(r, 0.06) {
		// a struct field marked no-flag whose own fields look like options: none of them exists for the parser
		ng := &GroupNode{Desc: pick(r, []string{"", "Skipped"})}
		ng.Opts = append(ng.Opts, &OptNode{Long: "nf-skipped", Short: "N", Kind: "flag", VType: "bool"},
			&OptNode{Long: "nf-value", Kind: "scalar", VType: "string", Defaults: []string{"x"}})
		g.NoFlag = append(g.NoFlag, ng)
	}
	return g
}

func genArgs(r *rand.Rand) ([]*ArgNode, bool) {
	n := r.Intn(4)
	var as []*ArgNode
	for i := 0; i < n; i++ {
		a := &ArgNode{Name: pick(r, []string{"src", "dst", "file", "n", "rest", "répertoire"}) + itoa(i), VType: pick(r, []string{"string", "string", "int", "uint8", "um"})}
		if completerBias && a.VType == "string" && chance(r, 0.6) {
			a.VType = "cc"
		}
		if chance(r, 0.2) {
			a.Desc = "arg " + a.Name
		}
		if isIntType(a.VType) && chance(r, 0.3) {
			a.Base = pick(r, []int{16, 2, 36, 8}) // a positional reads its own base tag, not the one of the struct around it
		}
		if a.VType == "string" && chance(r, 0.08) {
			a.Map = true
			as = append(as, a)
			continue
		}
		if i == n-1 && chance(r, 0.5) {
			a.Slice = true
			a.ReqTag = pick(r, []string{"", "", "1", "2", "1-2", "0-1", "yes", "-1", "2-"})
		} else if chance(r, 0.25) {
			a.ReqTag = pick(r, []string{"yes", "1", "true"})
		}
		as = append(as, a)
	}
	return as, n > 0 && chance(r, 0.3)
}

func genCmd(r *rand.Rand, depth int, name string, used map[string]bool) *CmdNode {
	c := &CmdNode{Name: name}
	c.Style = pick(r, []string{"tag", "prog", "exec", "exec"})
	if chance(r, 0.5) {
		c.Desc = "the " + name + " command"
	}
	n := r.Intn(3)
	for i := 0; i < n; i++ {
		a := pick(r, cmdPool)
		if !used[a] && a != name {
			used[a] = true
			c.Aliases = append(c.Aliases, a)
		}
	}
	c.Hidden = chance(r, 0.1)
	ns := newNS()
	switch c.Style {
	case "tag", "prog":
		c.Own = genGroup(r, ns, "", ".", 1, r.Intn(4), true, "")
		if chance(r, 0.2) {
			c.Extra = append(c.Extra, genGroup(r, ns, "", ".", 0, 1+r.Intn(2), true, pick(r, descWords[1:])))
		}
	case "exec":
		c.Extra = append(c.Extra, genGroup(r, ns, "", ".", 1, r.Intn(4), true, pick(r, descWords[1:])))
	}
	c.Args, c.ArgsReq = genArgs(r)
	if len(c.Args) > 1 && chance(r, 0.15) {
		c.ArgSplit = 1 + r.Intn(len(c.Args)-1)
	}
	if depth > 0 && chance(r, 0.45) {
		c.Cmds = genCmds(r, depth-1)
		c.SubOpt = chance(r, 0.3)
	}
	return c
}

func genCmds(r *rand.Rand, depth int) []*CmdNode {
	n := 1 + r.Intn(3)
	used := map[string]bool{}
	var tagged, others []*CmdNode
	for i := 0; i < n; i++ {
		name := pick(r, cmdPool)
		if used[name] {
			continue
		}
		used[name] = true
		c := genCmd(r, depth, name, used)
		if c.Style == "tag" {
			tagged = append(tagged, c)
		} else {
			others = append(others, c)
		}
	}
	all := append(tagged, others...)
	if len(all) >= 2 && chance(r, 0.12) {
		// two sibling commands that share an alias: the word selects the one declared later, every time
		all[0].Aliases = append(all[0].Aliases, "dup")
		all[len(all)-1].Aliases = append(all[len(all)-1].Aliases, "dup")
	}
	return all
}

func fixDelims(g *GroupNode) {}

// genTree makes a random declaration that go-flags accepts.
func genTree(r *rand.Rand, id int) *Tree {
	t := &Tree{ID: id, NsDelim: pick(r, []string{".", ".", ".", "-", "::"}), EnvDelim: pick(r, []string{"_", "_", "__"})}
	root := &CmdNode{Name: "app", Style: "root"}
	ns := newNS()
	first := "Application Options"
	if chance(r, 0.25) {
		first = "Main"
	}
	root.Extra = append(root.Extra, genGroup(r, ns, "", t.NsDelim, 2, 1+r.Intn(5), true, first))
	if chance(r, 0.3) {
		g := genGroup(r, ns, "", t.NsDelim, 1, 1+r.Intn(3), true, pick(r, descWords[1:]))
		g.Late = chance(r, 0.5) // scenarios with a first parse may add this group only after it (Parser.AddGroup)
		root.Extra = append(root.Extra, g)
	}
	if chance(r, 0.55) {
		root.Cmds = genCmds(r, 2)
		root.SubOpt = chance(r, 0.25)
	}
	if chance(r, 0.35) || len(root.Cmds) == 0 && chance(r, 0.3) {
		root.Args, root.ArgsReq = genArgs(r)
		if len(root.Args) > 1 && chance(r, 0.15) {
			root.ArgSplit = 1 + r.Intn(len(root.Args)-1)
		}
	}
	t.Root = root
	// nested groups of commands were generated with "." as delimiter for the uniqueness bookkeeping;
	// uniqueness of namespaced names is re-checked by the setup sanity test (a clash is a setup error, scenario dropped)
	return t
}

// ------------------------------------------------------------------ argv

type scopeOpt struct {
	o      *OptNode
	nsLong string
}

// optsInScope lists the options visible at command path (innermost declaration wins is the library's business).
func optsOfCmd(t *Tree, c *CmdNode) []scopeOpt {
	var out []scopeOpt
	var walk func(g *GroupNode, prefix string)
	walk = func(g *GroupNode, prefix string) {
		for _, o := range g.Opts {
			so := scopeOpt{o: o}
			if o.Long != "" {
				so.nsLong = prefix + o.Long
			}
			out = append(out, so)
		}
		for _, sg := range g.Groups {
			p := prefix
			if sg.Ns != "" {
				p = prefix + sg.Ns + t.NsDelim
			}
			walk(sg, p)
		}
	}
	if c.Own != nil {
		walk(c.Own, "")
	}
	for _, g := range c.Extra {
		p := ""
		if g.Ns != "" {
			p = g.Ns + t.NsDelim
		}
		walk(g, p)
	}
	return out
}

func canArgNode(o *OptNode) bool {
	return !(o.Kind == "flag" || o.Kind == "counter" || o.Kind == "ptrflag" || o.Kind == "func0")
}

// spell renders one occurrence of option so with value v in the given spelling.
// spellings: s-concat s-eq s-sep l-eq l-sep ; flags: s l
func spell(so scopeOpt, v string, how string) []string {
	switch how {
	case "s":
		return []string{"-" + so.o.Short}
	case "l":
		return []string{"--" + so.nsLong}
	case "s-concat":
		return []string{"-" + so.o.Short + v}
	case "s-eq":
		return []string{"-" + so.o.Short + "=" + v}
	case "s-sep":
		return []string{"-" + so.o.Short, v}
	case "l-eq":
		return []string{"--" + so.nsLong + "=" + v}
	case "l-sep":
		return []string{"--" + so.nsLong, v}
	}
	return nil
}

func spellings(so scopeOpt) []string {
	var out []string
	if canArgNode(so.o) {
		if so.o.Short != "" {
			out = append(out, "s-concat", "s-eq", "s-sep")
		}
		if so.nsLong != "" {
			out = append(out, "l-eq", "l-sep")
		}
	} else {
		if so.o.Short != "" {
			out = append(out, "s")
		}
		if so.nsLong != "" {
			out = append(out, "l")
		}
	}
	return out
}

type occurrence struct {
	so    scopeOpt
	v     string
	how   string
	start int
}

// genArgv builds a validity-biased vector for the tree.
func genArgv(r *rand.Rand, t *Tree, sc *Scenario) {
	var argv []string
	var occs []occurrence
	c := t.Root
	var scope []scopeOpt
	level := 0
	wantValid := chance(r, 0.8)
	for {
		scope = append(scope, optsOfCmd(t, c)...)
		// some options in scope
		nopt := r.Intn(4)
		emitOpts := func(n int, mustReq bool) {
			var cands []scopeOpt
			for _, so := range scope {
				cands = append(cands, so)
			}
			if mustReq && wantValid {
				for _, so := range optsOfCmd(t, c) {
					if so.o.Required && len(spellings(so)) > 0 {
						if len(so.o.Defaults) > 0 && chance(r, 0.5) {
							continue
						}
						cands = append(cands, so)
						n++
						// force this one first
						argv, occs = emitOcc(r, argv, occs, so, wantValid)
					}
				}
			}
			for i := 0; i < n && len(cands) > 0; i++ {
				so := pick(r, cands)
				if len(spellings(so)) == 0 {
					continue
				}
				argv, occs = emitOcc(r, argv, occs, so, wantValid)
			}
		}
		emitOpts(nopt, true)
		// clusters of flags now and then
		if chance(r, 0.25) {
			var fl []string
			for _, so := range scope {
				if !canArgNode(so.o) && so.o.Short != "" && chance(r, 0.6) {
					fl = append(fl, so.o.Short)
				}
			}
			if len(fl) >= 2 {
				tok := "-" + strings.Join(fl, "")
				if chance(r, 0.3) {
					for _, so := range scope {
						if canArgNode(so.o) && so.o.Short != "" && !so.o.Optional {
							tok += so.o.Short
							argv = append(argv, tok, validValue(r, so.o))
							tok = ""
							break
						}
					}
				}
				if tok != "" {
					argv = append(argv, tok)
				}
			}
		}
		// positionals of this command
		npos := 0
		earlyDD := false
		for _, a := range c.Args {
			if a.Slice {
				k := r.Intn(3)
				if wantValid {
					lo, hi := parseReqTag(a.ReqTag)
					if lo > k {
						k = lo
					}
					if hi >= 0 && k > hi {
						k = hi
					}
				}
				for i := 0; i < k; i++ {
					argv = append(argv, posValue(r, a, wantValid))
					npos++
				}
			} else {
				if wantValid || chance(r, 0.7) {
					pv := wantValid
					if !earlyDD && chance(r, 0.12) { // the terminator in front of a pending positional: its value is bound after `--`
						argv = append(argv, "--")
						earlyDD = true
						pv = pv && chance(r, 0.5)
					}
					argv = append(argv, posValue(r, a, pv))
					npos++
				} else {
					break
				}
			}
			if chance(r, 0.3) {
				emitOpts(1, false)
			}
		}
		// descend?
		if len(c.Cmds) > 0 && (chance(r, 0.8) || (!c.SubOpt && wantValid)) && !hasSlice(c) {
			sub := pick(r, c.Cmds)
			name := sub.Name
			if len(sub.Aliases) > 0 && chance(r, 0.4) {
				name = pick(r, sub.Aliases)
			}
			argv = append(argv, name)
			c = sub
			level++
			continue
		}
		break
	}
	// trailing material
	if chance(r, 0.3) {
		n := 1 + r.Intn(3)
		for i := 0; i < n; i++ {
			argv = append(argv, pick(r, []string{"rest1", "x", "", "-", "file.txt", "add", "rm", "é"}))
		}
	}
	if chance(r, 0.2) {
		emitN := 1 + r.Intn(2)
		for i := 0; i < emitN && len(scope) > 0; i++ {
			so := pick(r, scope)
			if len(spellings(so)) > 0 {
				argv, occs = emitOcc(r, argv, occs, so, wantValid)
			}
		}
	}
	if chance(r, 0.2) {
		argv = append(argv, "--")
		n := r.Intn(3)
		for i := 0; i < n; i++ {
			argv = append(argv, pick(r, []string{"-x", "--alpha", "after", "--", "-", "--=", "-ab", "12", "x7", "300"}))
		}
	}
	// perturbations
	np := 0
	if !wantValid {
		np = 1 + r.Intn(2)
	} else if chance(r, 0.15) {
		np = 1
	}
	for i := 0; i < np; i++ {
		argv = perturb(r, argv, scope, t)
		occs = nil // positions no longer valid
	}
	sc.Argv = toSs(argv)
	// C02: respell one occurrence
	if len(occs) > 0 && chance(r, 0.6) {
		oc := pick(r, occs)
		alts := spellings(oc.so)
		var cand []string
		for _, h := range alts {
			if h != oc.how {
				cand = append(cand, h)
			}
		}
		if len(cand) > 0 && canArgNode(oc.so.o) {
			to := pick(r, cand)
			n := len(spell(oc.so, oc.v, oc.how))
			alt := append([]string{}, argv[:oc.start]...)
			alt = append(alt, spell(oc.so, oc.v, to)...)
			alt = append(alt, argv[oc.start+n:]...)
			sc.Alt = toSs(alt)
			sc.AltInfo = &AltInfo{Opt: oc.so.o.idx, Pos: oc.start + 1, From: oc.how, To: to, Value: toS(oc.v)}
		}
	}
}

func hasSlice(c *CmdNode) bool {
	for _, a := range c.Args {
		if a.Slice {
			return true
		}
	}
	return false
}

func posValue(r *rand.Rand, a *ArgNode, valid bool) string {
	if a.Map {
		return pick(r, []string{"k:v", "key:a:b", "k", "é:1", ":x", "k:"})
	}
	o := &OptNode{Kind: "scalar", VType: a.VType, Base: a.Base}
	if valid || chance(r, 0.7) {
		v := validValue(r, o)
		if strings.HasPrefix(v, "-") && len(v) > 1 {
			return "p" + v
		}
		return v
	}
	return invalidValue(r, o)
}

func emitOcc(r *rand.Rand, argv []string, occs []occurrence, so scopeOpt, valid bool) ([]string, []occurrence) {
	sp := spellings(so)
	if len(sp) == 0 {
		return argv, occs
	}
	how := pick(r, sp)
	v := ""
	if canArgNode(so.o) {
		if valid || chance(r, 0.6) {
			v = validValue(r, so.o)
		} else {
			v = invalidValue(r, so.o)
		}
		if chance(r, 0.08) && so.o.VType == "string" {
			v = pick(r, oddStringVals)
		}
		if so.o.Optional && chance(r, 0.7) {
			// optional argument: only the = forms carry a value; the bare form uses optional-value
			if chance(r, 0.5) {
				if so.o.Short != "" && (so.nsLong == "" || chance(r, 0.5)) {
					argv = append(argv, "-"+so.o.Short)
				} else {
					argv = append(argv, "--"+so.nsLong)
				}
				return argv, occs
			}
			if strings.HasSuffix(how, "-sep") {
				how = strings.Replace(how, "-sep", "-eq", 1)
			}
		}
	}
	occs = append(occs, occurrence{so: so, v: v, how: how, start: len(argv)})
	argv = append(argv, spell(so, v, how)...)
	return argv, occs
}

func perturb(r *rand.Rand, argv []string, scope []scopeOpt, t *Tree) []string {
	at := 0
	if len(argv) > 0 {
		at = r.Intn(len(argv) + 1)
	}
	ins := func(tok ...string) []string {
		out := append([]string{}, argv[:at]...)
		out = append(out, tok...)
		return append(out, argv[at:]...)
	}
	switch r.Intn(9) {
	case 0: // unknown long / near miss
		name := pick(r, longPool)
		if len(scope) > 0 && chance(r, 0.7) {
			so := pick(r, scope)
			if so.nsLong != "" {
				switch r.Intn(5) {
				case 4:
					// only the namespace part of a namespaced name (what a short-only option of that group would be called, had it a long name)
					if k := len(so.nsLong) - len(so.o.Long); k > 0 {
						name = so.nsLong[:k]
					}
				case 0:
					name = so.nsLong[:len(so.nsLong)-1]
				case 1:
					name = strings.ToUpper(so.nsLong)
				case 2:
					name = so.nsLong + "x"
				case 3:
					name = so.o.Long
				}
			}
		}
		if chance(r, 0.4) {
			return ins("--" + name + "=" + pick(r, stringVals))
		}
		return ins("--" + name)
	case 1: // unknown short, maybe inside a cluster
		tok := "-" + pick(r, []string{"q", "Q", "y", "ü", "-q", "qa", "aq", "q=1"})
		return ins(tok)
	case 2: // drop a token
		if len(argv) == 0 {
			return argv
		}
		at = r.Intn(len(argv))
		return append(append([]string{}, argv[:at]...), argv[at+1:]...)
	case 3:
		return ins("--")
	case 4: // duplicate a token
		if len(argv) == 0 {
			return argv
		}
		at = r.Intn(len(argv))
		return ins(argv[at])
	case 5:
		return ins(pick(r, []string{"", "-", "---x", "--=", "-=", "-=x", "word", "add", "\xff\xfe", "-\xff", "--\xff=1", "--help", "-h", "--100%sure", "-%", "%v", "--%d=%s",
			"--nf-skipped", "-N", "--nf-value=1", "--nf-value"}))
	case 6: // command word of some other level
		return ins(pick(r, cmdPool))
	case 7: // a value-less option at the end
		if len(scope) > 0 {
			so := pick(r, scope)
			if sp := spellings(so); len(sp) > 0 {
				how := pick(r, sp)
				toks := spell(so, "", how)
				at = len(argv)
				return ins(toks[0])
			}
		}
		return argv
	default:
		return ins(pick(r, oddStringVals))
	}
}

var poptNames = []string{"HelpFlag", "PassDoubleDash", "IgnoreUnknown", "PrintErrors", "PassAfterNonOption"}

func genScenario(r *rand.Rand, t *Tree, id int) *Scenario {
	sc := &Scenario{Fam: "argparse", ID: id, Decl: t.ID, Handler: "none", Env: []EnvKV{}, POpts: []string{}, Tags: []string{}}
	// parser options: Default-like most of the time
	for _, n := range poptNames {
		p := 0.5
		switch n {
		case "IgnoreUnknown":
			p = 0.25
		case "PassAfterNonOption":
			p = 0.2
		case "PassDoubleDash":
			p = 0.7
		}
		if chance(r, p) {
			sc.POpts = append(sc.POpts, n)
		}
	}
	if chance(r, 0.25) {
		sc.Handler = pick(r, []string{"identity", "dropnext", "dropall", "inject", "error"})
	}
	sc.CmdHandler = chance(r, 0.3)
	sc.ExecErr = chance(r, 0.1)
	sc.Prelude = []S{}
	if chance(r, 0.04) {
		sc.Completion = toS(pick(r, []string{"1", "verbose", "true", "0", "x", " "}))
	}
	if chance(r, 0.12) {
		// a first parse on the same parser (mostly valid), so that nothing of it may leak into the judged one
		pre := &Scenario{}
		genArgv(rand.New(rand.NewSource(r.Int63())), t, pre)
		sc.HasPrelude = true
		sc.Prelude = pre.Argv
		for _, g := range t.Root.Extra {
			if g.Late {
				sc.LateGroup = chance(r, 0.7)
			}
		}
	}
	// environment
	for _, k := range envPool {
		if chance(r, 0.3) {
			for _, pre := range []string{"", "N_", "M_", "NN_", "N__", "N_M_", "N_N_"} {
				if pre == "" || chance(r, 0.5) {
					sc.Env = append(sc.Env, EnvKV{K: toS(pre + k), V: toS(pick(r, []string{"e1", "5", "", "a,b", "k:1;k2:2", "7,8", "x::y", "1,,2", "a,,b,", ";k:1", "5,"}))})
				}
			}
		}
	}
	sc.RenameLong = S{}
	defer func() {
		// a word that is the alias of two sibling commands selects the later one, not necessarily the one the generator
		// went on with: what it took for two spellings of one option may then be two different options
		for _, tok := range sc.Argv {
			if tok.String() == "dup" {
				sc.Alt, sc.AltInfo = nil, nil
			}
		}
		// names that only exist inside no-flag struct fields are unknown to the parser
		if treeHasNoFlag(t) && chance(r, 0.5) {
			tok := toS(pick(r, []string{"--nf-skipped", "-N", "--nf-value=1", "--nf-value"}))
			at := r.Intn(len(sc.Argv) + 1)
			sc.Argv = append(sc.Argv[:at:at], append([]S{tok}, sc.Argv[at:]...)...)
			sc.Alt, sc.AltInfo = nil, nil
		}
	}()
	if sc.HasPrelude && !sc.LateGroup && chance(r, 0.2) {
		// the public LongName field of one option is assigned a new name between the two parses: the judged vector is built
		// over the new name most of the time (the old one is then an unknown flag)
		var cands []*OptNode
		var walk func(c *CmdNode)
		var walkG func(g *GroupNode)
		walkG = func(g *GroupNode) {
			for _, o := range g.Opts {
				if o.Long != "" {
					cands = append(cands, o)
				}
			}
			for _, sg := range g.Groups {
				walkG(sg)
			}
		}
		walk = func(c *CmdNode) {
			if c.Own != nil {
				walkG(c.Own)
			}
			for _, g := range c.Extra {
				walkG(g)
			}
			for _, sc := range c.Cmds {
				walk(sc)
			}
		}
		walk(t.Root)
		if len(cands) > 0 {
			o := pick(r, cands)
			sc.RenameOpt = o.idx
			sc.RenameLong = toS("renamed")
			old := o.Long
			renamedInArgv := chance(r, 0.75)
			if renamedInArgv {
				o.Long = "renamed"
			}
			genArgv(r, t, sc)
			o.Long = old
			if !renamedInArgv {
				// the vector spells the option by a name it no longer has: not a pair of spellings of one option (C02)
				sc.Alt, sc.AltInfo = nil, nil
			}
			return sc
		}
	}
	genArgv(r, t, sc)
	return sc
}

func treeHasNoFlag(t *Tree) bool {
	found := false
	var walkG func(g *GroupNode)
	walkG = func(g *GroupNode) {
		if len(g.NoFlag) > 0 {
			found = true
		}
		for _, sg := range g.Groups {
			walkG(sg)
		}
	}
	var walkC func(c *CmdNode)
	walkC = func(c *CmdNode) {
		if c.Own != nil {
			walkG(c.Own)
		}
		for _, g := range c.Extra {
			walkG(g)
		}
		for _, sc := range c.Cmds {
			walkC(sc)
		}
	}
	walkC(t.Root)
	return found
}
