package main

// Family "session": a history of API calls on one parser (INI reads in either
// mode, ParseArgs, INI writes), observed after every call.  Serves C05, C12,
// C13, C14 and the INI part of C15.

import (
	"bytes"
	"encoding/json"
	"fmt"
	"os"
	"reflect"
	"runtime/debug"
	"strings"

	flags "github.com/jessevdk/go-flags"
)

type Call struct {
	Op         string   `json:"op"` // ini | args | write | fresh
	Text       S        `json:"text"`
	AsDefaults bool     `json:"asDefaults"`
	Argv       []S      `json:"argv"`
	IniOpts    []string `json:"iniOpts"`
	FromWrite  int      `json:"fromWrite"` // ini: 0 = use Text; k > 0 = read the text produced by call k (a write) of this session
	ViaFile    bool     `json:"viaFile"`   // write: IniParser.WriteFile onto a file that already holds a longer, unrelated text; ini: IniParser.ParseFile
}

type CallObs struct {
	Panic    bool    `json:"panic"`
	PanicMsg S       `json:"panicMsg"`
	ErrKind  string  `json:"errKind"` // none | IniError | ErrUnknownGroup | <flags error type> | foreign
	Line     int     `json:"line"`
	Values   [][]any `json:"values"`
	IsSet    []bool  `json:"isSet"`
	Pos      [][][]S `json:"pos"`
	Retargs  []S     `json:"retargs"`
	Text     S       `json:"text"`  // write: what was written
	Lines    []S     `json:"lines"` // write: the same, split at LF (without the final empty piece)
	ErrMsg   S       `json:"errMsg"`
	Repeat   int     `json:"repeat"`   // how often the call was repeated on identical fresh parsers (C15)
	Distinct int     `json:"distinct"` // number of distinct observations among the repetitions
}

type SessionScn struct {
	Fam     string     `json:"fam"`
	ID      int        `json:"id"`
	Decl    int        `json:"decl"`
	POpts   []string   `json:"popts"`
	Env     []EnvKV    `json:"env"`
	Calls   []Call     `json:"calls"`
	Presets []Preset   `json:"presets"` // field contents stored before the first call (on top of the tree's own presets)
	Repeat  int        `json:"repeat"`  // C15: run the whole session this many times on fresh parsers and compare
	Tags    []string   `json:"tags"`
	Obs     []*CallObs `json:"obs,omitempty"`
	// C15
	Runs        int  `json:"runs"`
	DistinctObs int  `json:"distinctObs"`
	Crash       bool `json:"crash"`
	Timeout     bool `json:"timeout"`
}

// Preset stores texts into an option's field before the first call (maps as key:value).
type Preset struct {
	Opt  int `json:"opt"`
	Vals []S `json:"vals"`
}

func iniOptsOf(names []string) flags.IniOptions {
	var o flags.IniOptions
	for _, n := range names {
		switch n {
		case "IncludeDefaults":
			o |= flags.IniIncludeDefaults
		case "CommentDefaults":
			o |= flags.IniCommentDefaults
		case "IncludeComments":
			o |= flags.IniIncludeComments
		}
	}
	return o
}

func splitLinesS(s string) []S {
	parts := strings.Split(s, "\n")
	if len(parts) > 0 && parts[len(parts)-1] == "" {
		parts = parts[:len(parts)-1]
	}
	return toSs(parts)
}

func runSessionOnce(t *Tree, sc *SessionScn) []*CallObs {
	var out []*CallObs
	b := Build(t, poptsOf(sc.POpts))
	if b.err == nil {
		for _, ps := range sc.Presets {
			if ps.Opt >= 1 && ps.Opt <= len(b.optVal) && b.opts[ps.Opt-1].Kind != "func0" && b.opts[ps.Opt-1].Kind != "func1" {
				f := b.optVal[ps.Opt-1]
				f.Set(reflect.Zero(f.Type()))
				for _, v := range ps.Vals {
					setText(f, v.String(), 10)
				}
			}
		}
	}
	for _, kv := range sc.Env {
		os.Setenv(kv.K.String(), kv.V.String())
	}
	defer func() {
		for _, kv := range sc.Env {
			os.Unsetenv(kv.K.String())
		}
	}()
	written := map[int]string{}
	for ci, c := range sc.Calls {
		co := &CallObs{Values: [][]any{}, IsSet: []bool{}, Pos: [][][]S{}, Retargs: []S{}, Lines: []S{}, ErrKind: "none"}
		out = append(out, co)
		if b.err != nil {
			co.ErrKind = "setup"
			continue
		}
		func() {
			defer func() {
				if r := recover(); r != nil {
					co.Panic = true
					co.PanicMsg = toS(fmt.Sprint(r))
					co.ErrKind = "panic"
					if os.Getenv("VH_STACK") != "" {
						fmt.Fprintf(os.Stderr, "panic: %v\n%s\n", r, debug.Stack())
					}
				}
			}()
			switch c.Op {
			case "fresh":
				// a fresh parser over the same declaration, without presets (the reader side of a round trip)
				b = BuildOpt(t, poptsOf(sc.POpts), false)
			case "ini":
				ip := flags.NewIniParser(b.p)
				ip.ParseAsDefaults = c.AsDefaults
				text := c.Text.String()
				if c.FromWrite > 0 {
					text = written[c.FromWrite]
				}
				var err error
				if c.ViaFile {
					f, ferr := os.CreateTemp("", "vh-ini-*")
					if ferr != nil {
						die(2, "temp file: %v", ferr)
					}
					f.WriteString(text)
					f.Close()
					err = ip.ParseFile(f.Name())
					os.Remove(f.Name())
				} else {
					err = ip.Parse(strings.NewReader(text))
				}
				if err != nil {
					co.ErrMsg = toS(err.Error())
					switch e := err.(type) {
					case *flags.IniError:
						co.ErrKind = "IniError"
						co.Line = int(e.LineNumber)
					case *flags.Error:
						co.ErrKind = errTypeNames[e.Type]
					default:
						co.ErrKind = "foreign"
					}
				}
			case "args":
				args := make([]string, len(c.Argv))
				for i, a := range c.Argv {
					args[i] = a.String()
				}
				so, se := os.Stdout, os.Stderr
				capReset(capOut)
				capReset(capErr)
				os.Stdout, os.Stderr = capOut, capErr
				rest, err := b.p.ParseArgs(args)
				os.Stdout, os.Stderr = so, se
				o := emptyObs()
				classifyErr(err, o)
				co.ErrKind = o.ErrType
				co.ErrMsg = o.ErrMsg
				co.Retargs = toSs(rest)
			case "write":
				var buf bytes.Buffer
				if c.ViaFile {
					// the file exists already and holds more than what is written now: what is left afterwards is the new text only
					f, ferr := os.CreateTemp("", "vh-ini-*")
					if ferr != nil {
						die(2, "temp file: %v", ferr)
					}
					f.WriteString(strings.Repeat("[Old Section]\nold = \"left over\"\n", 400))
					f.Close()
					werr := flags.NewIniParser(b.p).WriteFile(f.Name(), iniOptsOf(c.IniOpts))
					data, _ := os.ReadFile(f.Name())
					os.Remove(f.Name())
					if werr != nil {
						panic(werr)
					}
					buf.Write(data)
				} else {
					flags.NewIniParser(b.p).Write(&buf, iniOptsOf(c.IniOpts))
				}
				written[ci+1] = buf.String()
				co.Text = toS(buf.String())
				co.Lines = splitLinesS(buf.String())
			}
		}()
		if b.err == nil && !co.Panic {
			o := emptyObs()
			b.log = &evlog{}
			b.fillState(o)
			co.Values, co.IsSet, co.Pos = o.Values, o.IsSet, o.Pos
		}
	}
	return out
}

func runSession(t *Tree, sc *SessionScn) {
	sc.Obs = runSessionOnce(t, sc)
	if sc.Repeat > 1 {
		first, _ := json.Marshal(sc.Obs)
		seen := map[string]bool{string(first): true}
		for i := 1; i < sc.Repeat; i++ {
			o, _ := json.Marshal(runSessionOnce(t, sc))
			seen[string(o)] = true
		}
		sc.Runs = sc.Repeat
		sc.DistinctObs = len(seen)
	} else {
		sc.Runs = 1
		sc.DistinctObs = 1
	}
}

func init() {
	families["session"] = family{
		run: func(trees []*Tree, line []byte) any {
			sc := &SessionScn{}
			if err := json.Unmarshal(line, sc); err != nil {
				die(2, "session scenario: %v", err)
			}
			if sc.Decl < 1 || sc.Decl > len(trees) {
				die(2, "session %d refers to unknown declaration %d", sc.ID, sc.Decl)
			}
			runSession(trees[sc.Decl-1], sc)
			return sc
		},
		crash: func(line []byte, timeout bool, msg string) any {
			sc := &SessionScn{}
			json.Unmarshal(line, sc)
			sc.Crash = !timeout
			sc.Timeout = timeout
			sc.Obs = []*CallObs{}
			for range sc.Calls {
				sc.Obs = append(sc.Obs, &CallObs{Panic: true, PanicMsg: toS(msg), ErrKind: "panic", Values: [][]any{}, IsSet: []bool{}, Pos: [][][]S{}, Retargs: []S{}, Lines: []S{}})
			}
			return sc
		},
	}
}
