--------------------------------- MODULE Ini ---------------------------------
(***************************************************************************)
(* The INI reader (ini.go:374-477), the application of a parsed file to    *)
(* the option cells (ini.go:479-615) and the INI writer (ini.go:200-346),  *)
(* over the same state record and the same Option.Set as ArgParse.         *)
(*                                                                         *)
(* A text is a sequence of characters (bytes that are not valid UTF-8 are  *)
(* BADBYTE + byte).  Reading is a per-line automaton; every line has one   *)
(* class, named here as in the design: Blank, Comment, Header, BadHeader,  *)
(* EmptyHeader, KeyValue, NoEquals, BadQuote.                              *)
(*                                                                         *)
(* Defect switches (members of Defects):                                   *)
(*   "IniEmptyKeyMatches"   an entry with an empty key matches the first   *)
(*                          option without ini-name (group.go:153)         *)
(*   "IniMapEmptyValuePanics"  `m = k:` indexes an empty string (ini.go:562)*)
(*   "IniAsDefaultsFirstOnly"  in as-defaults mode a repeated key keeps    *)
(*                          only its first entry (ini.go:599)              *)
(*   "IniWriterQuoting"     the writer quotes only non-printable strings   *)
(*   "IniWriterPtrString"   a *string is never quoted by the writer        *)
(*   "IniWriterNilPtr"      a nil pointer is written as `name =`           *)
(*   "IniSectionMapOrder"   sections are applied in map iteration order    *)
(***************************************************************************)
EXTENDS ArgParse

---------------------------------------------------------------------------
(* Reader *)

\* split at LF; one CR directly before the LF belongs to the line end (bufio.ReadLine); no line after a final LF
SplitLines(txt) ==
  LET parts == Split(txt, NL)
      ls == IF parts[Len(parts)] = E THEN Take(parts, Len(parts) - 1) ELSE parts
  IN [i \in 1..Len(ls) |-> IF ls[i] # E /\ ls[i][Len(ls[i])] = CR /\ (i < Len(parts)) THEN Take(ls[i], Len(ls[i]) - 1) ELSE ls[i]]

\* class and content of one line (already without its line end)
Classify(raw) ==
  LET line == TrimSpace(raw) IN
  IF line = E THEN [c |-> "Blank"]
  ELSE IF line[1] = SEMI \/ line[1] = HASH THEN [c |-> "Comment"]
  ELSE IF line[1] = LBRACK THEN
       IF line[Len(line)] # RBRACK THEN [c |-> "BadHeader"]
       ELSE LET name == TrimSpace(SubSeq(line, 2, Len(line) - 1)) IN
            IF name = E THEN [c |-> "EmptyHeader"] ELSE [c |-> "Header", name |-> name]
  ELSE LET eq == IndexOf(line, EQ) IN
       IF eq = 0 THEN [c |-> "NoEquals"]
       ELSE LET name == TrimSpace(Take(line, eq - 1))
                value == TrimSpace(Drop(line, eq)) IN
            IF value # E /\ value[1] = QUOTE THEN
                 LET uq == Unquote(value) IN
                 IF uq.unspec THEN [c |-> "Unspec"]
                 ELSE IF ~uq.ok THEN [c |-> "BadQuote"]
                 ELSE [c |-> "KeyValue", name |-> name, value |-> uq.v, quoted |-> TRUE]
            ELSE [c |-> "KeyValue", name |-> name, value |-> value, quoted |-> FALSE]

\* The parsed file: sections in order of first appearance (the code keeps them in a map, see C15), each a list of
\* entries with their 1-based line numbers; or the first faulty line.
ReadIni(txt) ==
  LET ls == SplitLines(txt)
      step(acc, i) ==
        IF acc.err # 0 \/ acc.unspec THEN acc
        ELSE LET k == Classify(ls[i]) IN
             CASE k.c \in {"Blank", "Comment"} -> acc
               [] k.c = "Unspec" -> [acc EXCEPT !.unspec = TRUE]
               [] k.c \in {"BadHeader", "EmptyHeader", "NoEquals", "BadQuote"} -> [acc EXCEPT !.err = i, !.errc = k.c]
               [] k.c = "Header" ->
                    LET j == FirstIdx(acc.secs, LAMBDA s : s.name = k.name) IN
                    IF j = 0 THEN [acc EXCEPT !.secs = Append(@, [name |-> k.name, entries |-> <<>>]), !.cur = Len(acc.secs) + 1]
                    ELSE [acc EXCEPT !.cur = j]
               [] OTHER -> [acc EXCEPT !.secs[acc.cur].entries = Append(@, [name |-> k.name, value |-> k.value, quoted |-> k.quoted, line |-> i])]
  IN FoldLeft(step, [secs |-> <<[name |-> E, entries |-> <<>>]>>, cur |-> 1, err |-> 0, errc |-> "", unspec |-> FALSE, nlines |-> Len(ls)],
              [i \in 1..Len(ls) |-> i])

---------------------------------------------------------------------------
(* Section -> groups (ini.go:479-497, command.go:374-392, group.go:96-108) *)

\* Latin-1 aware lower-casing, enough for the generated descriptions
LowerC(c) == IF IsUpper(c) THEN c + 32 ELSE IF c >= 192 /\ c <= 222 /\ c # 215 THEN c + 32 ELSE c
Lower(s) == [i \in 1..Len(s) |-> LowerC(s[i])]

\* groups of command c in eachGroup order (own group first): indices into d.groups
GroupsOf(d, c) == SelectSeq([g \in 1..Len(d.groups) |-> g], LAMBDA g : d.groups[g].cmd = c)
OwnGroup(d, c) == LET gs == GroupsOf(d, c) IN gs[FirstIdx(gs, LAMBDA g : d.groups[g].own)]

\* Group.Find: the last group of the command (other than its own) whose description equals name, case-insensitively
FindGroup(d, c, name) ==
  LET gs == GroupsOf(d, c)
      k == LastIdx(gs, LAMBDA g : ~d.groups[g].own /\ Lower(d.groups[g].desc) = Lower(name)) IN
  IF k = 0 THEN 0 ELSE gs[k]

SubCmdSeq(d, c) == SelectSeq([k \in 1..Len(d.cmds) |-> k], LAMBDA k : d.cmds[k].parent = c)

\* Command.groupByName
RECURSIVE GroupByName(_, _, _)
GroupByName(d, c, name) ==
  IF name = E THEN OwnGroup(d, c)
  ELSE LET g == FindGroup(d, c, name) IN
       IF g # 0 THEN g
       ELSE LET subs == SubCmdSeq(d, c)
                try(acc, k) ==
                  IF acc # 0 THEN acc
                  ELSE LET prefix == Append(d.cmds[k].name, DOT) IN
                       IF HasPrefix(name, prefix) THEN GroupByName(d, k, Drop(name, Len(prefix)))
                       ELSE IF name = d.cmds[k].name THEN OwnGroup(d, k) ELSE 0
            IN FoldLeft(try, 0, subs)

\* the groups a section addresses, in the order they are tried
MatchingGroups(d, name) == IF name = E THEN GroupsOf(d, 1)
                           ELSE LET g == GroupByName(d, 1, name) IN IF g = 0 THEN <<>> ELSE <<g>>

\* sub-tree of group g in pre-order (Group.eachGroup)
RECURSIVE GroupSubtree(_, _)
GroupSubtree(d, g) == <<g>> \o FoldLeft(LAMBDA acc, h : acc \o GroupSubtree(d, h), <<>>,
                                          SelectSeq([h \in 1..Len(d.groups) |-> h], LAMBDA h : d.groups[h].parent = g /\ d.groups[h].cmd = d.groups[g].cmd))

\* options of the sub-tree of g in traversal order
OptsUnder(s, g) == LET gs == GroupSubtree(s.d, g) IN
                   FoldLeft(LAMBDA acc, h : acc \o SelectSeq([o \in 1..Len(s.d.opts) |-> o], LAMBDA o : s.d.opts[o].group = h), <<>>, gs)

\* Group.optionByName: rank ini-name (case-insensitive) > field name > namespaced long name > short name;
\* the first option of the highest rank present wins
NameRank(s, o, name) ==
  LET od == s.d.opts[o] IN
  IF (od.iniName # E \/ Defect("IniEmptyKeyMatches")) /\ Lower(od.iniName) = Lower(name) THEN 4
  ELSE IF name = od.field THEN 3
  ELSE IF od.long # E /\ name = s.nsLong[o] THEN 2
  ELSE IF od.short # 0 /\ name = <<od.short>> THEN 1
  ELSE 0
OptionByName(s, g, name) ==
  LET os == OptsUnder(s, g)
      best == FoldLeft(LAMBDA acc, o : IF NameRank(s, o, name) > acc.r THEN [r |-> NameRank(s, o, name), o |-> o] ELSE acc, [r |-> 0, o |-> 0], os)
  IN best.o

\* the option an entry addresses: first group (in order) whose best match exists and is not marked no-ini
ResolveEntry(s, groups, name) ==
  FoldLeft(LAMBDA acc, g : IF acc # 0 THEN acc
                            ELSE LET o == OptionByName(s, g, name) IN IF o # 0 /\ ~s.d.opts[o].noIni THEN o ELSE 0,
           0, groups)

---------------------------------------------------------------------------
(* Application (ini.go:499-615).  Result: the state, with s.ierr describing the failure, if any:            *)
(*   [t |-> "none" | "IniError" | "ErrUnknownGroup" | "panic", line |-> n]                                     *)

NoIErr == [t |-> "none", line |-> 0]

\* one entry
ApplyEntry(s, groups, e, asDefaults, blocked) ==
  LET o == ResolveEntry(s, groups, e.name) IN
  IF o = 0 THEN (IF HasOpt(s, "IgnoreUnknown") THEN s ELSE [s EXCEPT !.ierr = [t |-> "IniError", line |-> e.line]])
  ELSE LET od == s.opts[o]
           \* as-defaults: options set explicitly before this read are left alone; the pinned code tests the flag it
           \* has itself just raised for the previous entry of the same key
           skip == asDefaults /\ (IF Defect("IniAsDefaultsFirstOnly") THEN s.prevDef[o] ELSE InSeq(blocked, o)) IN
       IF skip THEN s
       ELSE LET noval == FlagLike(od) /\ e.value = E
                mapv == IF od.kind = "map" /\ IndexOf(e.value, COLON) > 0 THEN MapVal(e.value) ELSE E
                mapPanic == od.kind = "map" /\ IndexOf(e.value, COLON) > 0 /\ mapv = E /\ Defect("IniMapEmptyValuePanics")
                mapQuoted == od.kind = "map" /\ mapv # E /\ mapv[1] = QUOTE
                uq == IF mapQuoted THEN Unquote(mapv) ELSE Okv(E)
                val == IF mapQuoted /\ uq.ok THEN MapKey(e.value) \o <<COLON>> \o uq.v ELSE e.value
            IN IF mapPanic THEN [s EXCEPT !.ierr = [t |-> "panic", line |-> e.line]]
               ELSE IF mapQuoted /\ uq.unspec THEN [s EXCEPT !.grey = TRUE, !.ierr = [t |-> "IniError", line |-> e.line]]
               ELSE IF mapQuoted /\ ~uq.ok THEN [s EXCEPT !.ierr = [t |-> "IniError", line |-> e.line]]
               ELSE LET s1 == ApplySet(s, o, ~noval, val, "ini") IN
                    IF s1.perr.t # "none" THEN [s1 EXCEPT !.perr = NoErr, !.ierr = [t |-> "IniError", line |-> e.line]]
                    ELSE [s1 EXCEPT !.isSetDef[o] = IF asDefaults THEN TRUE ELSE @, !.prevDef[o] = TRUE,
                                    \* what the writer remembers of this read: the key as spelled, and whether every entry was quoted
                                    !.readName[o] = e.name,
                                    !.iniQuote[o] = IF s.quoteSeen[o] THEN (@ /\ (e.quoted \/ mapQuoted)) ELSE (e.quoted \/ mapQuoted),
                                    !.quoteSeen[o] = TRUE]

RECURSIVE ApplyEntries(_, _, _, _, _)
ApplyEntries(s, groups, es, asDefaults, blocked) ==
  IF es = <<>> \/ s.ierr.t # "none" THEN s
  ELSE ApplyEntries(ApplyEntry(s, groups, Head(es), asDefaults, blocked), groups, Tail(es), asDefaults, blocked)

ApplySection(s, sec, asDefaults, blocked) ==
  IF s.ierr.t # "none" THEN s
  ELSE LET groups == MatchingGroups(s.d, sec.name) IN
       IF groups = <<>> THEN (IF HasOpt(s, "IgnoreUnknown") THEN s ELSE [s EXCEPT !.ierr = [t |-> "ErrUnknownGroup", line |-> 0]])
       ELSE ApplyEntries(s, groups, sec.entries, asDefaults, blocked)

\* order: a permutation of 1..Len(ini.secs) - the order in which Go happens to range over the section map
ApplyIni(s, ini, asDefaults, order) ==
  LET n == Len(s.opts)
      s0 == [s EXCEPT !.clearRef = [o \in 1..n |-> TRUE], !.ierr = NoIErr, !.perr = NoErr, !.quoteSeen = [o \in 1..n |-> FALSE]]
      blocked == SelectSeq([o \in 1..n |-> o], LAMBDA o : s.prevDef[o])
  IN FoldLeft(LAMBDA acc, k : ApplySection(acc, ini.secs[k], asDefaults, blocked), s0, order)

\* IniParser.Parse: read, then apply.  A syntax error is reported before anything is applied.
IniParse(s, txt, asDefaults, order) ==
  LET ini == ReadIni(txt) IN
  IF ini.unspec THEN [s EXCEPT !.grey = TRUE, !.ierr = NoIErr]
  ELSE IF ini.err # 0 THEN [s EXCEPT !.ierr = [t |-> "IniError", line |-> ini.err]]
  ELSE ApplyIni(s, ini, asDefaults, order)

IdentityOrder(ini) == [k \in 1..Len(ini.secs) |-> k]

---------------------------------------------------------------------------
(* Writer (ini.go:200-346).  iniopts: subset of {"IncludeDefaults", "CommentDefaults", "IncludeComments"}.   *)
(* The text is produced as a sequence of lines.                                                               *)

\* the text of one stored atom as convertToString renders it: integers in the option's base, the rest as stored
RenderAtom(od, a) == IF (IsSignedInt(od.vtype) \/ IsUnsignedInt(od.vtype)) /\ od.base # 10 THEN FormatInBase(a, od.base)
                     ELSE IF od.vtype \in {"um", "us"} THEN (IF HasPrefix(a, UMPrefix) THEN Drop(a, Len(UMPrefix)) ELSE a)
                     ELSE a

IsStringish(od) == od.vtype \in {"string"}
\* does the text need quoting to survive the reader: the pinned code quotes only what is not printable
NeedsQuote(od, v) ==
  /\ IsStringish(od)
  /\ (od.kind # "ptr" \/ ~Defect("IniWriterPtrString"))           \* pinned: a *string is never quoted
  /\ \/ ~IsPrintS(v)
     \/ (~Defect("IniWriterQuoting") /\ v # E /\ (v[1] = SPACE \/ v[Len(v)] = SPACE \/ v[1] = QUOTE))

\* the value of the option with every default tag applied to the empty value (Option.valueIsDefault)
DefaultVal(s, o) ==
  LET od == s.opts[o]
      z == [s EXCEPT !.val[o] = ZeroVal(od), !.clearRef[o] = FALSE]
      r == FoldLeft(LAMBDA acc, dv : ApplySet(acc, o, TRUE, dv, "def"), z, od.defaults)       \* conversion errors are ignored
  IN r.val[o]
ValEqDefault(s, o) == LET od == s.opts[o] IN
                      IF od.kind = "map" THEN SeqToSet(s.val[o]) = SeqToSet(DefaultVal(s, o)) ELSE s.val[o] = DefaultVal(s, o)

WriteOptLine(name, key, hasKey, v, quote, commented) ==
  LET vq == IF quote THEN QuoteS(v) ELSE v
      pre == (IF commented THEN <<SEMI, SPACE>> ELSE E) \o name \o <<SPACE, EQ>>
  IN IF hasKey /\ key # E THEN pre \o <<SPACE>> \o key \o <<COLON>> \o vq
     ELSE IF vq # E THEN pre \o <<SPACE>> \o vq ELSE pre

\* lines for one option; iniName(o): the key to write (name as read, else ini-name, else field name)
SortPairs(ps) == LET keys == SortStrs([i \in 1..Len(ps) |-> ps[i][1]]) IN
                 [i \in 1..Len(keys) |-> ps[FirstIdx(ps, LAMBDA p : p[1] = keys[i])]]
\* map entries as they are written and shown: keys rendered like values (by the key type, in the option's base) and
\* ordered by the rendered text - "10" before "9" for integer keys
RenderKey(od, k) == RenderAtom([od EXCEPT !.vtype = od.ktype], k)
RenderedPairs(od, ps) == SortPairs([i \in 1..Len(ps) |-> <<RenderKey(od, ps[i][1]), ps[i][2]>>])
OptLines(s, o, iniopts, readName, forceQuote) ==
  LET od == s.opts[o]
      name == IF readName # E THEN readName ELSE IF od.iniName # E THEN od.iniName ELSE od.field
      isdef == ValEqDefault(s, o)
      commented == "IncludeDefaults" \in iniopts /\ "CommentDefaults" \in iniopts /\ isdef
      v == s.val[o]
      q(t) == forceQuote \/ NeedsQuote(od, t)
      body ==
        IF od.kind \in {"slice", "counter", "sliceptr"} THEN
             IF v = <<>> THEN <<WriteOptLine(name, E, FALSE, E, forceQuote, TRUE)>>
             ELSE [i \in 1..Len(v) |-> WriteOptLine(name, E, FALSE, RenderAtom(od, v[i]), q(RenderAtom(od, v[i])), commented)]
        ELSE IF od.kind = "map" THEN
             IF v = <<>> THEN <<WriteOptLine(name, E, FALSE, E, forceQuote, TRUE)>>
             ELSE LET sp == RenderedPairs(od, v) IN
                  [i \in 1..Len(sp) |-> WriteOptLine(name, sp[i][1], TRUE, RenderAtom(od, sp[i][2]), q(RenderAtom(od, sp[i][2])), commented)]
        ELSE IF od.kind \in {"ptr", "ptrflag"} /\ v = <<>> THEN
             \* a nil pointer has no value: the pinned code writes `name =`, which a non-string pointer cannot read back
             <<WriteOptLine(name, E, FALSE, E, forceQuote, IF Defect("IniWriterNilPtr") THEN commented ELSE TRUE)>>
        ELSE <<WriteOptLine(name, E, FALSE, RenderAtom(od, v[1]), q(RenderAtom(od, v[1])), commented)>>
      desc == IF "IncludeComments" \in iniopts /\ od.desc # E THEN <<(<<SEMI, SPACE>> \o od.desc)>> ELSE <<>>
  IN desc \o body \o (IF "IncludeComments" \in iniopts THEN <<E>> ELSE <<>>)

Written(s, o, iniopts) == LET od == s.opts[o] IN
                          ~(od.kind \in {"func0", "func1", "help"}) /\ ~od.hidden /\ ~od.noIni
                          /\ ("IncludeDefaults" \in iniopts \/ ~ValEqDefault(s, o))

\* section name of group g of command c whose dotted path is ns
SectionName(d, c, g, ns) == IF d.groups[g].own \/ d.groups[g].desc = E THEN ns
                            ELSE IF ns = E THEN d.groups[g].desc ELSE ns \o <<DOT>> \o d.groups[g].desc

GroupLines(s, c, g, ns, iniopts, readNames, quotes) ==
  LET os == SelectSeq([o \in 1..Len(s.d.opts) |-> o], LAMBDA o : s.d.opts[o].group = g /\ Written(s, o, iniopts))
      body == FoldLeft(LAMBDA acc, o : acc \o OptLines(s, o, iniopts, readNames[o], quotes[o]), <<>>, os)
  IN IF os = <<>> THEN <<>>
     ELSE <<(<<LBRACK>> \o SectionName(s.d, c, g, ns) \o <<RBRACK>>)>> \o body \o (IF "IncludeComments" \in iniopts THEN <<>> ELSE <<E>>)

RECURSIVE CommandLines(_, _, _, _, _, _)
CommandLines(s, c, ns, iniopts, readNames, quotes) ==
  LET gs == SelectSeq(GroupsOf(s.d, c), LAMBDA g : ~s.d.groups[g].hidden)
      own == FoldLeft(LAMBDA acc, g : acc \o GroupLines(s, c, g, ns, iniopts, readNames, quotes), <<>>, gs)
      subs == SelectSeq(SubCmdSeq(s.d, c), LAMBDA k : ~s.d.cmds[k].hidden)
  IN FoldLeft(LAMBDA acc, k : acc \o CommandLines(s, k, IF ns = E THEN s.d.cmds[k].name ELSE ns \o <<DOT>> \o s.d.cmds[k].name,
                                                   iniopts, readNames, quotes), own, subs)

NoNames(s) == [o \in 1..Len(s.opts) |-> E]
NoQuotes(s) == [o \in 1..Len(s.opts) |-> FALSE]
WriteIni(s, iniopts) == CommandLines(s, 1, E, iniopts, s.readName, s.iniQuote)
JoinLines(ls) == FoldLeft(LAMBDA acc, ln : acc \o ln \o <<NL>>, E, ls)
=============================================================================
