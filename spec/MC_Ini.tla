------------------------------- MODULE MC_Ini -------------------------------
(***************************************************************************)
(* Exhaustive models over the INI specification.                           *)
(*   mode "read"   (C14): every file of up to MaxLines lines over the line *)
(*                 shapes derived from a declaration, LF / CRLF, with and  *)
(*                 without IgnoreUnknown: located errors, noise invariance *)
(*   mode "equiv"  (C13): an entry in every naming form and section        *)
(*                 spelling against the corresponding flag                  *)
(*   mode "trip"   (C12): Read(Write(values)) = values over a value        *)
(*                 alphabet, all eight IniOptions                          *)
(* Every enumerated case is printed as a session scenario and replayed on  *)
(* the real code.                                                          *)
(***************************************************************************)
EXTENDS Ini, FTab, Json

CONSTANTS Mode, DeclIds, MaxLines, Emit
VARIABLE st

Decls == ndJsonDeserialize("catalog_decls.ndjson")


Scn(di, po) == [decl |-> di, popts |-> po, handler |-> "none", cmdHandler |-> FALSE, execErr |-> FALSE, env |-> <<>>, argv |-> <<>>, completion |-> E, hasPrelude |-> FALSE, prelude |-> <<>>]
Start(di, po) == S0(Decls[di], Scn(di, po), FTab)
Fresh(di, po) == LET s == Start(di, po) IN [s EXCEPT !.val = [o \in 1..Len(s.opts) |-> IF o <= Len(s.d.opts) THEN ZeroVal(s.opts[o]) ELSE <<>>]]

---------------------------------------------------------------------------
(* mode "read" *)

IniAble(od) == ~(od.kind \in {"func0", "func1"})
GoodValue(od) == IF od.choices # <<>> THEN od.choices[1]
                 ELSE IF od.kind = "map" THEN <<107, 58, 53>>
                 ELSE IF IsSignedInt(od.vtype) \/ IsUnsignedInt(od.vtype) THEN <<53>>
                 ELSE IF od.kind \in {"flag", "counter", "ptrflag"} THEN S_true
                 ELSE <<97>>
BadValue(od) == IF IsSignedInt(od.vtype) \/ IsUnsignedInt(od.vtype) THEN <<120>>
                ELSE IF od.kind \in {"flag", "counter", "ptrflag"} THEN <<109>> ELSE <<>>

Header(name) == <<LBRACK>> \o name \o <<RBRACK>>
KV(name, v) == name \o <<SPACE, EQ, SPACE>> \o v

\* line shapes for declaration d: noise, headers of the sections it has, entries for its first INI-able options, faults
NoiseShapes == {E, <<SPACE, SPACE>>, <<SEMI, SPACE, 99>>, <<HASH, 99>>}
SectionNames(d) == {d.groups[g].desc : g \in {g \in 1..Len(d.groups) : d.groups[g].cmd = 1 /\ ~d.groups[g].own /\ d.groups[g].desc # E}}
                   \cup {d.cmds[c].name : c \in {c \in 2..Len(d.cmds) : d.cmds[c].parent = 1}}
HeaderShapes(d) == {Header(n) : n \in SectionNames(d)} \cup {Header(<<110, 111, 112, 101>>)}            \* [nope]
EntryOpts(d) == LET os == SelectSeq([o \in 1..Len(d.opts) |-> o], LAMBDA o : IniAble(d.opts[o])) IN
                {os[i] : i \in 1..(IF Len(os) < 3 THEN Len(os) ELSE 3)}
EntryShapes(d) == UNION {{KV(d.opts[o].field, GoodValue(d.opts[o])),
                          <<SPACE>> \o d.opts[o].field \o <<EQ>> \o GoodValue(d.opts[o]) \o <<SPACE>>,     \* padded, no blanks around '='
                          KV(d.opts[o].field, QuoteS(GoodValue(d.opts[o])))}
                         \cup (IF BadValue(d.opts[o]) # <<>> THEN {KV(d.opts[o].field, BadValue(d.opts[o]))} ELSE {})
                         \cup (IF d.opts[o].kind = "map" THEN {KV(d.opts[o].field, <<107, 58>>)} ELSE {})     \* m = k:
                         : o \in EntryOpts(d)}
FaultShapes == {<<LBRACK, 120>>, <<LBRACK, RBRACK>>, <<LBRACK, SPACE, RBRACK>>, <<119, 111, 114, 100>>,               \* [x  []  [ ]  word
                KV(<<70, 49>>, <<QUOTE, 97>>), KV(<<110, 111, 115, 117, 99, 104>>, <<49>>), <<EQ, SPACE, 118>>}   \* F1 = "a   nosuch = 1   = v
Shapes(d) == NoiseShapes \cup HeaderShapes(d) \cup EntryShapes(d) \cup FaultShapes
IsNoise(line) == Classify(line).c \in {"Blank", "Comment"}

FileText(lines, crlf) == FoldLeft(LAMBDA acc, ln : acc \o ln \o (IF crlf THEN <<CR, NL>> ELSE <<NL>>), E, lines)

ReadOutcome(di, po, lines, crlf) == IniParse(Start(di, po), FileText(lines, crlf), FALSE, IdentityOrder(ReadIni(FileText(lines, crlf))))
Proj(s) == [err |-> s.ierr, val |-> IF s.ierr.t = "none" THEN s.val ELSE <<>>]

\* number of noise lines among the first n lines
NoiseBefore(lines, n) == Cardinality({i \in 1..n : IsNoise(lines[i])})
Stripped(lines) == SelectSeq(lines, LAMBDA ln : ~IsNoise(ln))

ReadInvariants ==
  (st.stage = "file") =>
    LET out == ReadOutcome(st.di, st.po, st.lines, st.crlf)
        bare == ReadOutcome(st.di, st.po, Stripped(st.lines), FALSE)
        ini == ReadIni(FileText(st.lines, st.crlf))
    IN /\ out.ierr.t \in {"none", "IniError", "ErrUnknownGroup"}                          \* typed outcome, never a crash
       /\ out.ierr.t = "IniError" => (out.ierr.line >= 1 /\ out.ierr.line <= Len(st.lines) /\ ~IsNoise(st.lines[out.ierr.line]))
       \* noise does not change what the other lines mean; a reported line number shifts by the noise lines before it
       /\ out.ierr.t = bare.ierr.t
       /\ out.ierr.t = "none" => out.val = bare.val
       /\ out.ierr.t = "IniError" => out.ierr.line - NoiseBefore(st.lines, out.ierr.line) = bare.ierr.line
       \* CRLF and LF files mean the same
       /\ Proj(out) = Proj(ReadOutcome(st.di, st.po, st.lines, ~st.crlf))
       \* a syntactically faulty line is always reported (the first one), whatever else the file contains
       /\ ini.err # 0 => (out.ierr.t = "IniError" /\ out.ierr.line = ini.err)

---------------------------------------------------------------------------
(* mode "equiv": an entry means the same as the flag *)

NameForms(s, o) == LET od == s.opts[o] IN
                   {od.field} \cup (IF od.iniName # E THEN {od.iniName, [i \in 1..Len(od.iniName) |-> IF IsLower(od.iniName[i]) THEN od.iniName[i] - 32 ELSE od.iniName[i]]} ELSE {})
                   \cup (IF od.long # E THEN {s.nsLong[o]} ELSE {}) \cup (IF od.short # 0 THEN {<<od.short>>} ELSE {})
RECURSIVE CmdPath(_, _)
CmdPath(d, c) == IF c = 1 THEN <<>> ELSE Append(CmdPath(d, d.cmds[c].parent), d.cmds[c].name)
Dotted(path) == Join(path, <<DOT>>)
\* section spellings that address option o
RECURSIVE GroupChain(_, _)
GroupChain(d, g) == IF g = 0 THEN <<>> ELSE Append(GroupChain(d, d.groups[g].parent), g)
SectionsFor(s, o) ==
  LET d == s.d
      od == d.opts[o]
      path == Dotted(CmdPath(d, od.cmd))
      descs == {d.groups[g].desc : g \in {g \in SeqToSet(GroupChain(d, od.group)) : d.groups[g].cmd = od.cmd /\ ~d.groups[g].own /\ d.groups[g].desc # E}}
  IN (IF od.cmd = 1 THEN {E} ELSE {path})
     \cup {IF path = E THEN dsc ELSE path \o <<DOT>> \o dsc : dsc \in descs}
     \cup {IF path = E THEN Lower(dsc) ELSE path \o <<DOT>> \o Lower(dsc) : dsc \in descs}

EquivValues(od) == IF od.kind = "map" THEN {<<107, 58, 53>>, <<106, 58, 54>>}
                   ELSE IF IsSignedInt(od.vtype) \/ IsUnsignedInt(od.vtype) THEN {<<53>>, <<55>>, <<120>>}
                   ELSE IF od.choices # <<>> THEN {od.choices[1], <<122>>}
                   ELSE {<<97>>, <<98, SPACE, 99>>, E}

\* the flag spelling: command words, then --long=value (or -s=value)
FlagFor(s, o, v) == LET od == s.opts[o] IN
                    IF od.long # E THEN <<DASH, DASH>> \o s.nsLong[o] \o <<EQ>> \o v ELSE <<DASH, od.short, EQ>> \o v

EquivInvariant ==
  (st.stage = "entry") =>
    LET s0 == Start(st.di, <<>>)
        od == s0.opts[st.o]
        text == (IF st.sec = E THEN E ELSE Header(st.sec) \o <<NL>>)
                \o FoldLeft(LAMBDA acc, v : acc \o KV(st.name, v) \o <<NL>>, E, st.vals)
        viaIni == IniParse(s0, text, st.asDef, IdentityOrder(ReadIni(text)))
        argv == CmdPath(s0.d, od.cmd) \o [i \in 1..Len(st.vals) |-> FlagFor(s0, st.o, st.vals[i])]
        viaCli == ParseArgsCall(s0, argv)
        \* the entry resolves to this option: no other option of the addressed groups carries the name with a higher rank
        resolves == ResolveEntry(s0, MatchingGroups(s0.d, st.sec), st.name) = st.o
    IN resolves =>
         /\ (viaIni.ierr.t = "none") <=> (viaCli.err.t \in {"none", "ErrRequired", "ErrCommandRequired"})      \* same acceptance of the value
         /\ viaIni.ierr.t = "none" => viaIni.val[st.o] = viaCli.val[st.o]

---------------------------------------------------------------------------
(* mode "trip": write then read *)

TripStrings == {E, <<97>>, <<SPACE, 97>>, <<97, SPACE>>, <<QUOTE>>, <<QUOTE, 97, QUOTE>>, <<97, QUOTE, 98>>, <<BACKSLASH>>, <<97, NL, 98>>, <<TAB>>,
                <<233>>, <<160, 97>>, <<8232>>, <<COLON>>, <<EQ>>, <<SEMI, 97>>, <<HASH>>, <<LBRACK, 97, RBRACK>>, <<BADBYTE + 255>>, <<97, CR>>, <<SPACE>>,
                <<97, SPACE, SEMI, 98>>, <<97, SPACE, HASH, 98>>}
TripValues(od) ==
  IF od.vtype = "string" THEN TripStrings
  ELSE IF od.vtype = "int8" THEN {<<48>>, <<49, 50, 55>>, <<DASH, 49, 50, 56>>}
  ELSE IF IsSignedInt(od.vtype) THEN {<<48>>, <<DASH, 53>>, <<57, 50, 50, 51, 51, 55, 50, 48, 51, 54, 56, 53, 52, 55, 55, 53, 56, 48, 55>>}
  ELSE IF IsUnsignedInt(od.vtype) THEN {<<48>>, <<50, 53, 53>>}
  ELSE {<<48>>}
TripSmall(od) == IF od.vtype = "string" THEN {E, <<97>>, <<SPACE, 97>>, <<QUOTE>>} ELSE {<<48>>, <<53>>}
\* stored contents of an option to try (sequences of atoms)
TripContents(od) ==
  CASE od.kind \in {"scalar"} -> {<<v>> : v \in TripValues(od)}
    [] od.kind = "ptr" -> {<<>>} \cup {<<v>> : v \in TripValues(od)}
    [] od.kind = "flag" -> {<<S_true>>, <<S_false>>}
    [] od.kind = "slice" -> {<<>>} \cup {<<v>> : v \in TripValues(od)} \cup {<<v, w>> : v \in TripSmall(od), w \in TripValues(od)}
    [] od.kind = "map" -> {<<>>} \cup {<<<<(<<107>>), v>>>> : v \in TripValues(od)} \cup {<<<<(<<107>>), v>>, <<(<<106>>), w>>>> : v \in TripSmall(od), w \in TripSmall(od)}
    [] OTHER -> {<<>>}

IniOptSets == SUBSET {"IncludeDefaults", "CommentDefaults", "IncludeComments"}

TripInvariant ==
  (st.stage = "value") =>
    LET a == ParseArgsCall([Fresh(st.di, <<>>) EXCEPT !.val[st.o] = st.content], <<>>)      \* parser A: preset, then a parse
        lines == WriteIni(a, st.iniopts)
        text == JoinLines(lines)
        b0 == Fresh(st.di, <<>>)
        b1 == IniParse(b0, text, FALSE, IdentityOrder(ReadIni(text)))
        b2 == ParseArgsCall(b1, <<>>)
        od == a.opts[st.o]
        same(x, y) == IF od.kind = "map" THEN SeqToSet(x) = SeqToSet(y) ELSE x = y
        \* domain: no option of the declaration holds a value that its own choice list rejects (such a value is not reachable by parsing)
        choicesOK == \A p \in 1..Len(a.d.opts) : a.opts[p].choices # <<>> => \A k \in 1..Len(a.val[p]) : InSeq(a.opts[p].choices, a.val[p][k])
    IN (~od.hidden /\ ~od.noIni /\ choicesOK) =>
          /\ b1.ierr.t = "none"
          /\ b2.err.t \in {"none", "ErrRequired", "ErrCommandRequired"}
          /\ same(b2.val[st.o], a.val[st.o])

---------------------------------------------------------------------------
Init == \E di \in DeclIds : st = [stage |-> "seed", di |-> di]

ExpandRead ==
  /\ Mode = "read" /\ st.stage = "seed"
  /\ \E n \in 0..MaxLines : \E lines \in [1..n -> Shapes(Decls[st.di])] : \E crlf \in BOOLEAN, ign \in BOOLEAN :
        st' = [stage |-> "file", di |-> st.di, po |-> IF ign THEN <<"IgnoreUnknown">> ELSE <<>>, lines |-> lines, crlf |-> crlf]

ExpandEquiv ==
  /\ Mode = "equiv" /\ st.stage = "seed"
  /\ LET s0 == Start(st.di, <<>>) IN
     \E o \in {o \in 1..Len(s0.d.opts) : IniAble(s0.d.opts[o]) /\ ~FlagLike(s0.d.opts[o]) /\ ~s0.d.opts[o].noIni} :
       \E name \in NameForms(s0, o), sec \in SectionsFor(s0, o), asDef \in BOOLEAN :
         \E vals \in {<<v>> : v \in EquivValues(s0.d.opts[o])} \cup {<<v, w>> : v \in EquivValues(s0.d.opts[o]), w \in EquivValues(s0.d.opts[o])} :
            st' = [stage |-> "entry", di |-> st.di, o |-> o, name |-> name, sec |-> sec, asDef |-> asDef, vals |-> vals]

ExpandTrip ==
  /\ Mode = "trip" /\ st.stage = "seed"
  /\ LET s0 == Start(st.di, <<>>) IN
     \E o \in {o \in 1..Len(s0.d.opts) : IniAble(s0.d.opts[o])} : \E content \in TripContents(s0.d.opts[o]), io \in IniOptSets :
        st' = [stage |-> "value", di |-> st.di, o |-> o, content |-> content, iniopts |-> io]

\* mode "order" (C15): files with two or three sections; those whose outcome depends on the order in which the
\* sections are applied (the pinned code ranges over a Go map) are emitted for repeated execution on the real code
OrderShapes(d) == HeaderShapes(d) \cup EntryShapes(d) \cup {KV(<<110, 111, 115, 117, 99, 104>>, <<49>>)}
ExpandOrder ==
  /\ Mode = "order" /\ st.stage = "seed"
  /\ \E n \in 2..MaxLines : \E lines \in [1..n -> OrderShapes(Decls[st.di])] :
        /\ Cardinality({i \in 1..n : Classify(lines[i]).c = "Header"}) >= 1
        /\ st' = [stage |-> "order", di |-> st.di, lines |-> lines]
RECURSIVE Perms(_)
Perms(X) == IF X = {} THEN {<<>>} ELSE UNION {{<<x>> \o p : p \in Perms(X \ {x})} : x \in X}
OrderOutcomes(di, lines) ==
  LET text == FileText(lines, FALSE)
      ini == ReadIni(text) IN
  IF ini.err # 0 THEN {[err |-> [t |-> "IniError", line |-> ini.err], val |-> <<>>]}
  ELSE {LET s == ApplyIni(Start(di, <<>>), ini, FALSE, p) IN [err |-> s.ierr, val |-> s.val] : p \in Perms(1..Len(ini.secs))}
OrderSensitive == st.stage = "order" /\ Cardinality(OrderOutcomes(st.di, st.lines)) > 1

Next == ExpandRead \/ ExpandEquiv \/ ExpandTrip \/ ExpandOrder
Spec == Init /\ [][Next]_st

---------------------------------------------------------------------------
(* scenario emission *)
Call(op, text, asDef, argv, io, fw) == [op |-> op, text |-> text, asDefaults |-> asDef, argv |-> argv, iniOpts |-> io, fromWrite |-> fw]
Session(di, po, calls, tags) == [fam |-> "session", decl |-> di, popts |-> po, env |-> <<>>, calls |-> calls, repeat |-> 1, tags |-> tags, presets |-> <<>>]
PresetTexts(od, content) == IF od.kind = "map" THEN [i \in 1..Len(content) |-> content[i][1] \o <<COLON>> \o content[i][2]] ELSE content
EmitScn ==
  Emit =>
   /\ st.stage = "file" => PrintT("SCN " \o ToJson(Session(st.di, st.po, <<Call("ini", FileText(st.lines, st.crlf), FALSE, <<>>, <<>>, 0)>>, <<"robust", "mc">>)))
   /\ st.stage = "entry" =>
        LET s0 == Start(st.di, <<>>)
            od == s0.opts[st.o]
            text == (IF st.sec = E THEN E ELSE Header(st.sec) \o <<NL>>) \o FoldLeft(LAMBDA acc, v : acc \o KV(st.name, v) \o <<NL>>, E, st.vals)
            argv == CmdPath(s0.d, od.cmd) \o [i \in 1..Len(st.vals) |-> FlagFor(s0, st.o, st.vals[i])]
        IN PrintT("SCN " \o ToJson(Session(st.di, <<>>, <<Call("ini", text, st.asDef, <<>>, <<>>, 0)>>
                                            \o (IF st.asDef THEN <<>> ELSE <<Call("fresh", E, FALSE, <<>>, <<>>, 0), Call("args", E, FALSE, argv, <<>>, 0)>>),
                                            <<"equiv", "mc">>)))
   /\ OrderSensitive => PrintT("SCN " \o ToJson([Session(st.di, <<>>, <<Call("ini", FileText(st.lines, FALSE), FALSE, <<>>, <<>>, 0)>>, <<"determinism", "mc", "order-sensitive">>)
                                                  EXCEPT !.repeat = 200]))
   /\ st.stage = "value" =>
        LET od == Decls[st.di].opts[st.o]
            io == SetToSeq(st.iniopts) IN
        PrintT("SCN " \o ToJson([Session(st.di, <<>>, <<Call("args", E, FALSE, <<>>, <<>>, 0), Call("write", E, FALSE, <<>>, io, 0), Call("fresh", E, FALSE, <<>>, <<>>, 0),
                                                         Call("ini", E, FALSE, <<>>, <<>>, 2), Call("args", E, FALSE, <<>>, <<>>, 0)>>, <<"roundtrip", "mc">>)
                                   EXCEPT !.presets = <<[opt |-> st.o, vals |-> PresetTexts(od, st.content)]>>]))
=============================================================================
