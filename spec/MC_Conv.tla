------------------------------- MODULE MC_Conv -------------------------------
(***************************************************************************)
(* C11: values are converted exactly or rejected.                          *)
(*  - the digit-sequence arithmetic of Conv.tla (which carries the 32- and *)
(*    64-bit ranges) is cross-checked against TLC's native integers on the *)
(*    8- and 16-bit types, exhaustively over all numerals of up to MaxDig  *)
(*    digits in bases 2, 8, 10, 16, 36 with every sign form;               *)
(*  - for every conversion declaration (element type x base) a boundary    *)
(*    alphabet of texts (0, +-1, limits and limits +-1 in the base, leading*)
(*    zeros, signs, blanks, underscores, prefixes, exponents, non-ASCII    *)
(*    digits; float / duration / bool literals; choices and near misses)   *)
(*    is sent through every way a value reaches a field: scalar, slice     *)
(*    element, map value, pointer, callback parameter, positional, and is  *)
(*    replayed on the real code.                                           *)
(***************************************************************************)
EXTENDS ArgParse, FTab, Json

CONSTANTS DeclIds, MaxDig, Emit
VARIABLE st

Decls == ndJsonDeserialize("conv_decls.ndjson")

---------------------------------------------------------------------------
(* native cross-check *)
DigitChars(base) == {c \in (48..57) \cup (97..122) \cup (65..90) : DigitVal(c) < base}
SmallDigits(base) == {48, 49} \cup {BaseDigitChar(base - 1)} \cup (IF base > 10 THEN {65} ELSE {}) \cup (IF base = 10 THEN {50, 53, 54} ELSE {})
Numerals(base) == UNION {[1..n -> SmallDigits(base)] : n \in 1..MaxDig}
SignForms(num) == {num, <<DASH>> \o num, <<43>> \o num}
NativeMag(num, base) == FoldLeft(LAMBDA acc, c : acc * base + DigitVal(c), 0, num)       \* < 36^4: fits a TLC integer
RECURSIVE NatText(_)
NatText(n) == IF n < 10 THEN <<48 + n>> ELSE Append(NatText(n \div 10), 48 + (n % 10))
IntText(n) == IF n < 0 THEN <<DASH>> \o NatText(0 - n) ELSE NatText(n)
Pow2N(b) == IF b = 7 THEN 128 ELSE IF b = 8 THEN 256 ELSE IF b = 15 THEN 32768 ELSE 65536
NativeSigned(txt, base, bits) ==
  LET neg == txt[1] = DASH
      body == IF txt[1] \in {DASH, 43} THEN Tail(txt) ELSE txt
      m == NativeMag(body, base)
      lim == Pow2N(bits - 1) IN
  IF neg THEN (IF m <= lim THEN Okv(IntText(0 - m)) ELSE Rej) ELSE (IF m < lim THEN Okv(IntText(m)) ELSE Rej)
NativeUnsigned(txt, base, bits) ==
  IF txt[1] \in {DASH, 43} THEN Rej ELSE (IF NativeMag(txt, base) < Pow2N(bits) THEN Okv(IntText(NativeMag(txt, base))) ELSE Rej)

NativeAgree ==
  (st.stage = "num") =>
     \A t \in SignForms(st.num) : \A bits \in {8, 16} :
        /\ ParseSigned(t, st.base, bits) = NativeSigned(t, st.base, bits)
        /\ ParseUnsigned(t, st.base, bits) = NativeUnsigned(t, st.base, bits)
\* rendering in a base is the inverse of parsing in that base
RenderInverse ==
  (st.stage = "num") =>
     \A t \in {st.num, <<DASH>> \o st.num} :
        LET r == ParseSigned(t, st.base, 64) IN r.ok => ParseSigned(FormatInBase(r.v, st.base), st.base, 64) = r

---------------------------------------------------------------------------
(* boundary texts per element type *)
Dec(ds) == DigitsText(ds)
InBase(ds, b) == FormatInBase(DigitsText(ds), b)
Succ(ds) == MulAdd(ds, 1, 1)
IntTexts(t, b) ==
  LET bits == IntBits(t)
      hi == IF IsSignedInt(t) THEN Pred(Pow2(bits - 1)) ELSE Pred(Pow2(bits))        \* largest value
      lo == Pow2(bits - 1)                                                           \* magnitude of the smallest (signed)
      H == InBase(hi, b)
      H1 == InBase(Succ(hi), b)
      L == InBase(lo, b)
      L1 == InBase(Succ(lo), b)
  IN {<<48>>, <<49>>, <<DASH, 49>>, <<43, 49>>, <<DASH, 48>>, <<48, 48, 49>>, H, H1, <<DASH>> \o L, <<DASH>> \o L1, <<43>> \o H,
      <<48>> \o H, E, <<SPACE, 49>>, <<49, SPACE>>, <<49, 95, 48>>, <<48, 120, 49, 48>>, <<49, 101, 50>>, <<49, 46, 48>>, <<DASH>>, <<43>>, <<DASH, DASH, 49>>,
      <<1636>>, <<122>>, <<90>>, <<BaseDigitChar(b - 1)>>, <<BaseDigitChar(b - 1) - (IF b > 10 THEN 32 ELSE 0)>>, <<48, 49, 48>>}
FloatTexts(t) == {FTab[i].txt : i \in {i \in 1..Len(FTab) : FTab[i].t = t}}
TextsFor(od) ==
  IF IsSignedInt(od.vtype) \/ IsUnsignedInt(od.vtype) THEN IntTexts(od.vtype, od.base)
  ELSE IF od.vtype \in {"float32", "float64", "duration"} THEN FloatTexts(od.vtype)
  ELSE IF od.vtype = "bool" THEN TrueLits \cup FalseLits \cup {E, <<121, 101, 115>>, <<116, 82, 85, 69>>, <<50>>}
  ELSE IF od.vtype = "tb" THEN {<<111, 110>>, <<111, 102, 102>>, S_true, E, <<79, 78>>}
  ELSE IF od.vtype = "um" THEN {<<97>>, E, <<33, 120>>, <<97, SPACE, 98>>}
  ELSE IF od.choices # <<>> THEN SeqToSet(od.choices) \cup {E, <<65>>, <<97, SPACE>>, <<SPACE, 97>>, <<97, 98, 99>>, <<98>>, <<98, SPACE, 99, SPACE>>, <<233, 233>>, <<101>>, <<111, 110>>, <<107, 58>>, <<107, 58, 119>>}
  ELSE {<<97>>, E, <<233>>, <<SPACE, 97, SPACE>>, <<BADBYTE + 255>>, <<58>>, <<97, 58, 98>>}

Scn(di, argv, po) == [fam |-> "argparse", decl |-> di, popts |-> po, handler |-> "none", cmdHandler |-> FALSE, execErr |-> FALSE, env |-> <<>>, argv |-> argv,
                      completion |-> E, hasPrelude |-> FALSE, prelude |-> <<>>, tags |-> <<"conv", "mc">>]
ArgvFor(d, o, txt) ==
  LET od == d.opts[o] IN
  IF od.kind = "map" THEN <<(<<DASH, DASH>> \o od.long \o <<EQ, 107, COLON>> \o txt)>>           \* --m=k:<txt>
  ELSE <<(<<DASH, DASH>> \o od.long \o <<EQ>> \o txt)>>

Init == \/ \E base \in {2, 8, 10, 16, 36} : st = [stage |-> "nseed", base |-> base]
        \/ \E di \in DeclIds : st = [stage |-> "dseed", di |-> di]
ExpandNum == /\ st.stage = "nseed" /\ \E num \in Numerals(st.base) : st' = [stage |-> "num", base |-> st.base, num |-> num]
ExpandDecl ==
  /\ st.stage = "dseed"
  /\ LET d == Decls[st.di] IN
     \/ \E o \in 1..Len(d.opts) : \E txt \in TextsFor(d.opts[o]) : st' = [stage |-> "opt", di |-> st.di, o |-> o, txt |-> txt]
     \/ (Len(d.cmds[1].args) > 0 /\ \E txt \in TextsFor(d.opts[1]) : st' = [stage |-> "pos", di |-> st.di, txt |-> txt])
     \* the separate-token form: a negative number is admissible for signed numeric options only
     \/ \E txt \in {<<DASH, 53>>, <<DASH, 49, 46, 53>>, <<DASH, 120>>, <<DASH>>} : st' = [stage |-> "sep", di |-> st.di, txt |-> txt]
Next == ExpandNum \/ ExpandDecl
Spec == Init /\ [][Next]_st

\* the specification's own outcome is total on every enumerated case (never Unspec for integers in bases 2..36)
Total ==
  (st.stage = "opt") =>
     LET d == Decls[st.di]
         f == Run(S0(d, Scn(st.di, ArgvFor(d, st.o, st.txt), <<>>), FTab)) IN
     /\ f.err.t \in {"none", "ErrMarshal", "ErrInvalidChoice", "ErrNoArgumentForBool"}
     /\ ((IsSignedInt(d.opts[st.o].vtype) \/ IsUnsignedInt(d.opts[st.o].vtype)) => ~f.grey)

EmitScn ==
  Emit =>
    /\ st.stage = "opt" => PrintT("SCN " \o ToJson(Scn(st.di, ArgvFor(Decls[st.di], st.o, st.txt), <<>>)))
    /\ st.stage = "pos" => PrintT("SCN " \o ToJson(Scn(st.di, <<(<<DASH, DASH>>), st.txt>>, <<"PassDoubleDash">>)))
    /\ st.stage = "sep" => PrintT("SCN " \o ToJson(Scn(st.di, <<(<<DASH, 120>>), st.txt>>, <<>>)))
=============================================================================
