SPECIFICATION DSpec
CONSTANT Defects = {}
CHECK_DEADLOCK FALSE
