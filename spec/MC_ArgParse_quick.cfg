SPECIFICATION Spec
CONSTANTS
  Defects = {}
  DeclIds = {1, 3, 4, 5}
  MaxLen = 2
  POptSets = {<<>>, <<"PassDoubleDash">>, <<"HelpFlag", "PassDoubleDash", "PrintErrors">>, <<"IgnoreUnknown", "PassAfterNonOption">>}
  Handlers = {"none"}
  Policy = {"opts", "cmds", "odd", "unknown"}
  PreMode = "none"
  Emit = FALSE
INVARIANTS
  Deterministic Terminates Typed ConservationStep Conservation ChainFromWords ScopeAgrees OccInScope UnknownNeverSilent
  ExecSafety RequiredEnforced ValuesDenote UntouchedWithoutOccurrence EmitScenario
PROPERTIES
  ExecOnlyAtDispatch
CHECK_DEADLOCK FALSE
