---------------------------- MODULE Trace_Closest ----------------------------
(* Trace validation for C20: each record is a command set, a word and what the real ParseArgs answered. *)
EXTENDS Closest, Json

VARIABLES l, bad, stat, j

TraceRecs == ndJsonDeserialize("trace.ndjson")
Props == {"C20", "DRIFT"}
B(x) == IF x THEN 1 ELSE 0

Visible(rec) == LET ix == SelectSeq([i \in 1..Len(rec.names) |-> i], LAMBDA i : ~rec.hidden[i]) IN [k \in 1..Len(ix) |-> rec.names[ix[k]]]

Judge(rec) ==
  LET o == rec.obs
      vis == Visible(rec)
      allowed == Allowed(rec.hasWord, rec.word, vis)
      got == [type |-> o.errType, kind |-> o.kind, names |-> o.names]
      good == IF o.panic \/ o.timeout THEN FALSE
              ELSE IF rec.names = <<>> THEN o.errType = "none"
              ELSE IF rec.hasWord /\ InSeq(rec.names, rec.word) THEN o.errType = "none"     \* the word is a command (hidden ones can be invoked too)
              ELSE got \in allowed
  IN [C20 |-> good, DRIFT |-> TRUE,
      suggest |-> B(\E a \in allowed : a.kind = "suggest"), enum |-> B(\E a \in allowed : a.kind = "enum"),
      multibyte |-> B(\E i \in 1..Len(rec.word) : rec.word[i] > 127), hidden |-> B(\E i \in 1..Len(rec.hidden) : rec.hidden[i])]

StatKeys == {"suggest", "enum", "multibyte", "hidden"}
Init == l = 1 /\ bad = [p \in Props |-> {}] /\ stat = [k \in StatKeys |-> 0] /\ j = <<>>
Next == /\ l <= Len(TraceRecs) /\ l' = l + 1
        /\ j' = Judge(TraceRecs[l])
        /\ bad' = [p \in Props |-> IF j'[p] THEN bad[p] ELSE bad[p] \cup {l}]
        /\ stat' = [k \in StatKeys |-> stat[k] + j'[k]]
        /\ TLCSet(1, bad') /\ TLCSet(2, stat') /\ TLCSet(3, l)
Spec == Init /\ [][Next]_<<l, bad, stat, j>>
Post == /\ PrintT(<<"VERIF-CONSUMED", TLCGet(3), Len(TraceRecs)>>)
        /\ PrintT(<<"VERIF-STAT", TLCGet(2)>>)
        /\ \A p \in Props : PrintT(<<"VERIF-BAD", p, TLCGet(1)[p]>>)
=============================================================================
