---------------------------- MODULE Trace_Closest ----------------------------
(* Trace validation for C20: each record is a command set, a word and what the real ParseArgs answered.        *)
(* The diagnosis is a function of the command set and the Hidden marks AS THEY ARE at the judged call: records *)
(* with hasBefore come from a parser whose marks were different during two earlier failing parses.            *)
EXTENDS Closest, Json

VARIABLE l

TraceRecs == ndJsonDeserialize("trace.ndjson")
Props == {"C20", "C15", "DRIFT"}
B(x) == IF x THEN 1 ELSE 0

\* a command is hidden when its Hidden field is set or, declared by struct tag, when its hidden tag carries ANY non-empty text
\* (command.go:252: "no", "0" and "false" hide as well)
IsHidden(rec, i) == rec.hidden[i] \/ (rec.byTag /\ rec.hiddenTag[i] # E)
Visible(rec) == LET ix == SelectSeq([i \in 1..Len(rec.names) |-> i], LAMBDA i : ~IsHidden(rec, i)) IN [k \in 1..Len(ix) |-> rec.names[ix[k]]]

IsAlias(rec, w) == "aliases" \in DOMAIN rec /\ \E i \in 1..Len(rec.aliases) : InSeq(rec.aliases[i], w)
Judge(rec) ==
  LET o == rec.obs
      vis == Visible(rec)
      allowed == Allowed(rec.hasWord, rec.word, vis)
      got == [type |-> o.errType, kind |-> o.kind, names |-> o.names]
      good == IF o.panic \/ o.timeout THEN FALSE
              ELSE IF rec.names = <<>> THEN o.errType = "none"
              ELSE IF rec.hasWord /\ (InSeq(rec.names, rec.word) \/ IsAlias(rec, rec.word)) THEN o.errType = "none"     \* the word is a command or an alias (hidden ones can be invoked too)
              ELSE got \in allowed
  IN [C20 |-> good, DRIFT |-> TRUE,
      C15 |-> o.panic \/ o.timeout \/ ~("distinct" \in DOMAIN o) \/ o.distinct <= 1,       \* repeated on fresh parsers: one and the same message (ties included)
      suggest |-> B(\E a \in allowed : a.kind = "suggest"), enum |-> B(\E a \in allowed : a.kind = "enum"),
      multibyte |-> B(\E i \in 1..Len(rec.word) : rec.word[i] > 127), hidden |-> B(\E i \in 1..Len(rec.hidden) : IsHidden(rec, i))]

StatKeys == {"suggest", "enum", "multibyte", "hidden"}
\* One state per record.  The judging is done in an invariant, not in the action: TLC caches lazily evaluated
\* operator arguments and LET definitions only when it evaluates a state predicate; inside a next-state action every
\* use re-evaluates them, which turns the nested operators of the specification exponential on large records.
Init == l = 1 /\ TLCSet(1, [p \in Props |-> {}]) /\ TLCSet(2, [k \in StatKeys |-> 0]) /\ TLCSet(3, 0)
Next == l < Len(TraceRecs) /\ l' = l + 1
Spec == Init /\ [][Next]_l
JudgeRecord ==
  (l <= Len(TraceRecs)) =>
    LET j == Judge(TraceRecs[l]) IN
    /\ TLCSet(1, [p \in Props |-> IF j[p] THEN TLCGet(1)[p] ELSE TLCGet(1)[p] \cup {l}])
    /\ TLCSet(2, [k \in StatKeys |-> TLCGet(2)[k] + j[k]])
    /\ TLCSet(3, TLCGet(3) + 1)

Post == /\ PrintT(<<"VERIF-CONSUMED", TLCGet(3), Len(TraceRecs)>>)
        /\ PrintT(<<"VERIF-STAT", TLCGet(2)>>)
        /\ \A p \in Props : PrintT(<<"VERIF-BAD", p, TLCGet(1)[p]>>)
=============================================================================
