----------------------------- MODULE Debug_Help -----------------------------
EXTENDS Trace_Help
DNext == /\ l <= Len(TraceRecs) /\ l' = l + 1
         /\ LET rec == TraceRecs[l]
                argv == IF rec.kind = "errhelp" THEN Append(rec.words, <<DASH, DASH, 104, 101, 108, 112>>) ELSE rec.words
                s0 == S0(Decls[rec.decl], Scn(rec, argv), FTab)
                f == Run(s0)
                pre == [k \in 1..Len(s0.opts) |-> IF k <= Len(s0.d.opts) THEN s0.opts[k].init ELSE <<>>] IN
            PrintT(<<"SPEC", l, ToJson([lines |-> HelpLines(s0, f.chain, rec.width, pre), chain |-> f.chain, err |-> f.err.t,
                                         ds |-> DescStart(Align(s0, f.chain)) + 2, judge |-> Judge(rec)])>>)
DSpec == (l = 1) /\ [][DNext]_l
=============================================================================
