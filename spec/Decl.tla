--------------------------------- MODULE Decl ---------------------------------
(***************************************************************************)
(* C19, second half: from the fields of a declaration (name, field type,   *)
(* raw tag text, sub-fields for group / command / positional structs) to   *)
(* the public model the parser exposes, or the typed setup error.          *)
(* Follows group.go:202-350 and command.go:155-271: fields are processed   *)
(* in order, the first error met wins, duplicate names are looked for at   *)
(* the end of each scanned unit (a nested group's own tree, without its    *)
(* namespace but with those of the groups below it; then the whole tree;   *)
(* a command's tree separately).  Groups nest to any depth, commands hold  *)
(* groups, positionals and sub-commands of their own.                      *)
(*   field == [name, ftype, tag, sub]                                      *)
(*   ftype \in {"bool","bools","pbool","func0","string","int","strs","map",*)
(*              "group","command","posargs"}                               *)
(***************************************************************************)
EXTENDS Tag

NoModel == [opts |-> <<>>, groups |-> <<>>, cmds |-> <<>>, args |-> <<>>, argsReq |-> FALSE]

\* options of a flat list of option fields: [err, opts]
RECURSIVE OptsOf(_, _)
OptsOf(fields, acc) ==
  IF fields = <<>> THEN [err |-> "none", opts |-> acc]
  ELSE LET f == Head(fields) IN
       IF f.ftype \in {"group", "command", "posargs"} THEN OptsOf(Tail(fields), acc)     \* handled by the caller
       ELSE LET b == BuildOpt(f) IN
            IF b.err # "none" THEN [err |-> b.err, opts |-> acc]
            ELSE OptsOf(Tail(fields), IF b.isOpt THEN Append(acc, b.opt) ELSE acc)

\* duplicate test over options given with their full long names
DupIn(opts, longs) ==
  \E i \in 1..Len(opts) : \E j \in (i + 1)..Len(opts) :
     \/ (opts[i].long # E /\ opts[j].long # E /\ longs[i] = longs[j])
     \/ (opts[i].short # 0 /\ opts[i].short = opts[j].short)

WithNs(ns, delim, long) == IF long = E THEN E ELSE IF ns = E THEN long ELSE ns \o delim \o long

IsStruct(f) == f.ftype \in {"group", "command", "posargs"}
Prefixed(ns, delim, o) == [o EXCEPT !.rel = WithNs(ns, delim, @)]
EnvPrefixed(ens, o) == [o EXCEPT !.relEnv = IF @ = E \/ ens = E THEN @ ELSE ens \o <<95>> \o @]

\* The fields of one struct, scanned as the data of a group (group.go scanStruct with the handler of that level).
\*   cmdLevel   TRUE for the parser's top-level struct and for a command's struct: `positional-args' and `command' struct
\*              fields are recognised there (command.go scanSubcommandHandler); inside a nested group only `group' is
\*   result     err / grey; own: the options of this group, in field order; deep: the options of the groups nested in it,
\*              pre-order, each with its long name and env key RELATIVE to this struct (rel, relEnv: the namespaces of the
\*              nested groups applied, this group's own not - it is assigned only after its scan returned);
\*              groups: the nested group records, pre-order; cmds / args / argsReq: what a command level collected
\* Fields are processed in order and the first error met wins.  A nested group (and a command) ends its own scan with the
\* duplicate test over its tree, which sees the namespaces of the groups strictly below it.
Unit0 == [err |-> "none", grey |-> FALSE, own |-> <<>>, deep |-> <<>>, groups |-> <<>>, cmds |-> <<>>, args |-> <<>>, argsReq |-> FALSE]
TreeOpts(u) == u.own \o u.deep
DupTree(u) == LET all == TreeOpts(u) IN DupIn(all, [i \in 1..Len(all) |-> all[i].rel])

RECURSIVE ScanFields(_, _)
ScanFields(fields, cmdLevel) ==
  LET delim == <<DOT>>
      step(acc, k) ==
        IF acc.err # "none" THEN acc
        ELSE LET f == fields[k]
                 sc == ScanTag(f.tag)
                 \* a struct field that also carries option names becomes an option of struct type after it was dived into: not generated
                 alsoOpt == Get(sc.kv, kLong) # E \/ Get(sc.kv, kShort) # E \/ Get(sc.kv, kIniName) # E
             IN IF sc.unspec THEN [acc EXCEPT !.err = "unspec"]
                ELSE IF ~sc.ok THEN [acc EXCEPT !.err = "ErrTag"]
                ELSE IF Get(sc.kv, kNoFlag) # E THEN acc
                ELSE IF IsStruct(f) /\ alsoOpt THEN [acc EXCEPT !.grey = TRUE]
                ELSE IF IsStruct(f) /\ cmdLevel /\ Get(sc.kv, kPositionalArgs) # E THEN
                     LET subTags == [i \in 1..Len(f.sub) |-> ScanTag(f.sub[i].tag)]
                         bad == FirstIdx([i \in 1..Len(f.sub) |-> i], LAMBDA i : ~subTags[i].ok) IN
                     IF bad # 0 THEN [acc EXCEPT !.err = IF subTags[bad].unspec THEN "unspec" ELSE "ErrTag"]
                     ELSE [acc EXCEPT !.args = @ \o [i \in 1..Len(f.sub) |->
                                         LET kv == subTags[i].kv
                                             nm == Get(kv, kPositionalArgName)
                                             rq == ReqOf(Get(kv, kRequired)) IN
                                         [name |-> IF nm = E THEN f.sub[i].name ELSE nm, desc |-> Get(kv, kDescription), req |-> rq.req, max |-> rq.max]],
                                      !.grey = @ \/ \E i \in 1..Len(f.sub) : ~ReqOf(Get(subTags[i].kv, kRequired)).spec,
                                      !.argsReq = @ \/ (f.sub # <<>> /\ Get(sc.kv, kRequired) # E)]
                ELSE IF IsStruct(f) /\ cmdLevel /\ Get(sc.kv, kCommand) # E THEN
                     \* a command: its struct is a tree of its own (options, groups, positionals, sub-commands), tested for duplicates alone
                     LET u == ScanFields(f.sub, TRUE) IN
                     IF u.err # "none" THEN [acc EXCEPT !.err = u.err]
                     ELSE IF DupTree(u) THEN [acc EXCEPT !.err = "ErrDuplicatedFlag", !.grey = @ \/ u.grey]
                     ELSE [acc EXCEPT !.grey = @ \/ u.grey,
                                      !.cmds = Append(@, [name |-> Get(sc.kv, kCommand), desc |-> Get(sc.kv, kDescription), longDesc |-> Get(sc.kv, kLongDescription),
                                                          subOpt |-> Get(sc.kv, kSubOptional) # E, aliases |-> GetMany(sc.kv, kAlias), hidden |-> Get(sc.kv, kHidden) # E,
                                                          opts |-> LET all == TreeOpts(u) IN [i \in 1..Len(all) |-> all[i] @@ [nsLong |-> all[i].rel, envKey |-> all[i].relEnv]],
                                                          groups |-> u.groups, nsub |-> Len(u.cmds), nargs |-> Len(u.args)])]
                ELSE IF IsStruct(f) /\ Get(sc.kv, kGroup) # E THEN
                     LET u == ScanFields(f.sub, FALSE)
                         ns == Get(sc.kv, kNamespace)
                         ens == Get(sc.kv, kEnvNamespace) IN
                     IF u.err # "none" THEN [acc EXCEPT !.err = u.err]
                     ELSE IF DupTree(u) THEN [acc EXCEPT !.err = "ErrDuplicatedFlag", !.grey = @ \/ u.grey]     \* inside the group's own tree, without its namespace
                     ELSE [acc EXCEPT !.grey = @ \/ u.grey,
                                      !.groups = @ \o <<[desc |-> Get(sc.kv, kGroup), longDesc |-> Get(sc.kv, kDescription), ns |-> ns, envNs |-> ens,
                                                         hidden |-> Get(sc.kv, kHidden) # E]>> \o u.groups,
                                      !.deep = @ \o LET all == TreeOpts(u) IN [i \in 1..Len(all) |-> EnvPrefixed(ens, Prefixed(ns, delim, all[i]))]]
                ELSE IF IsStruct(f) THEN [acc EXCEPT !.grey = TRUE]       \* a struct field no handler takes: flattened by the code; not generated
                ELSE LET b == BuildOpt(f) IN
                     IF b.err # "none" THEN [acc EXCEPT !.err = b.err]
                     ELSE IF b.isOpt THEN [acc EXCEPT !.own = Append(@, b.opt @@ [rel |-> b.opt.long, relEnv |-> b.opt.env])] ELSE acc
  IN FoldLeft(step, Unit0, [k \in 1..Len(fields) |-> k])

\* The declaration handed to NewParser: the top-level struct is the data of the "Application Options" group of the root command.
BuildModel(fields) ==
  LET r == ScanFields(fields, TRUE)
      all == TreeOpts(r)
  IN IF r.err # "none" THEN [err |-> r.err, grey |-> r.grey, model |-> NoModel]
     ELSE IF DupTree(r) THEN [err |-> "ErrDuplicatedFlag", grey |-> r.grey, model |-> NoModel]
     ELSE [err |-> "none", grey |-> r.grey,
           model |-> [opts |-> [i \in 1..Len(all) |-> all[i] @@ [nsLong |-> all[i].rel, envKey |-> all[i].relEnv]],
                      groups |-> r.groups, cmds |-> r.cmds, args |-> r.args, argsReq |-> r.argsReq]]
=============================================================================
