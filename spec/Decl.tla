--------------------------------- MODULE Decl ---------------------------------
(***************************************************************************)
(* C19, second half: from the fields of a declaration (name, field type,   *)
(* raw tag text, sub-fields for group / command / positional structs) to   *)
(* the public model the parser exposes, or the typed setup error.          *)
(* Follows group.go:202-350 and command.go:155-271: fields are processed   *)
(* in order, the first error met wins, duplicate names are looked for at   *)
(* the end of each scanned unit (a nested group alone, without its         *)
(* namespace; then the whole group tree with namespaces; a command's tree  *)
(* separately).                                                            *)
(*   field == [name, ftype, tag, sub]                                      *)
(*   ftype \in {"bool","bools","pbool","func0","string","int","strs","map",*)
(*              "group","command","posargs"}                               *)
(***************************************************************************)
EXTENDS Tag

NoModel == [opts |-> <<>>, groups |-> <<>>, cmds |-> <<>>, args |-> <<>>, argsReq |-> FALSE]

\* options of a flat list of option fields: [err, opts]
RECURSIVE OptsOf(_, _)
OptsOf(fields, acc) ==
  IF fields = <<>> THEN [err |-> "none", opts |-> acc]
  ELSE LET f == Head(fields) IN
       IF f.ftype \in {"group", "command", "posargs"} THEN OptsOf(Tail(fields), acc)     \* handled by the caller
       ELSE LET b == BuildOpt(f) IN
            IF b.err # "none" THEN [err |-> b.err, opts |-> acc]
            ELSE OptsOf(Tail(fields), IF b.isOpt THEN Append(acc, b.opt) ELSE acc)

\* duplicate test over options given with their full long names
DupIn(opts, longs) ==
  \E i \in 1..Len(opts) : \E j \in (i + 1)..Len(opts) :
     \/ (opts[i].long # E /\ opts[j].long # E /\ longs[i] = longs[j])
     \/ (opts[i].short # 0 /\ opts[i].short = opts[j].short)

WithNs(ns, delim, long) == IF long = E THEN E ELSE IF ns = E THEN long ELSE ns \o delim \o long

\* The declaration: top-level option fields, at most one nested group field, at most one command field, at most one
\* positional struct, in the order of `fields`.  delim: the namespace delimiter ("." unless changed after construction).
BuildModel(fields) ==
  LET delim == <<DOT>>
      step(acc, k) ==
        IF acc.err # "none" THEN acc
        ELSE LET f == fields[k]
                 sc == ScanTag(f.tag)
             IN IF sc.unspec THEN [acc EXCEPT !.err = "unspec"]
                ELSE IF ~sc.ok THEN [acc EXCEPT !.err = "ErrTag"]
                ELSE IF Get(sc.kv, kNoFlag) # E THEN acc
                ELSE IF f.ftype \in {"group", "command", "posargs"} /\ Get(sc.kv, kPositionalArgs) # E THEN
                     LET subTags == [i \in 1..Len(f.sub) |-> ScanTag(f.sub[i].tag)]
                         bad == FirstIdx([i \in 1..Len(f.sub) |-> i], LAMBDA i : ~subTags[i].ok) IN
                     IF bad # 0 THEN [acc EXCEPT !.err = IF subTags[bad].unspec THEN "unspec" ELSE "ErrTag"]
                     ELSE [acc EXCEPT !.args = @ \o [i \in 1..Len(f.sub) |->
                                         LET kv == subTags[i].kv
                                             nm == Get(kv, kPositionalArgName)
                                             rq == ReqOf(Get(kv, kRequired)) IN
                                         [name |-> IF nm = E THEN f.sub[i].name ELSE nm, desc |-> Get(kv, kDescription), req |-> rq.req, max |-> rq.max]],
                                      !.grey = @ \/ \E i \in 1..Len(f.sub) : ~ReqOf(Get(subTags[i].kv, kRequired)).spec,
                                      !.argsReq = @ \/ Get(sc.kv, kRequired) # E]
                ELSE IF f.ftype \in {"group", "command", "posargs"} /\ Get(sc.kv, kCommand) # E THEN
                     \* a command: its own option fields form a separate tree
                     LET so == OptsOf(f.sub, <<>>) IN
                     IF so.err # "none" THEN [acc EXCEPT !.err = so.err]
                     ELSE IF DupIn(so.opts, [i \in 1..Len(so.opts) |-> so.opts[i].long]) THEN [acc EXCEPT !.err = "ErrDuplicatedFlag"]
                     ELSE [acc EXCEPT !.cmds = Append(@, [name |-> Get(sc.kv, kCommand), desc |-> Get(sc.kv, kDescription), longDesc |-> Get(sc.kv, kLongDescription),
                                                          subOpt |-> Get(sc.kv, kSubOptional) # E, aliases |-> GetMany(sc.kv, kAlias), hidden |-> Get(sc.kv, kHidden) # E,
                                                          opts |-> [i \in 1..Len(so.opts) |-> [so.opts[i] EXCEPT !.long = @] @@ [nsLong |-> so.opts[i].long, envKey |-> so.opts[i].env]]])]
                ELSE IF f.ftype \in {"group", "command", "posargs"} /\ Get(sc.kv, kGroup) # E THEN
                     LET so == OptsOf(f.sub, <<>>)
                         ns == Get(sc.kv, kNamespace)
                         ens == Get(sc.kv, kEnvNamespace) IN
                     IF so.err # "none" THEN [acc EXCEPT !.err = so.err]
                     ELSE IF DupIn(so.opts, [i \in 1..Len(so.opts) |-> so.opts[i].long]) THEN [acc EXCEPT !.err = "ErrDuplicatedFlag"]     \* inside the group alone
                     ELSE [acc EXCEPT !.groups = Append(@, [desc |-> Get(sc.kv, kGroup), longDesc |-> Get(sc.kv, kDescription), ns |-> ns, envNs |-> ens,
                                                            hidden |-> Get(sc.kv, kHidden) # E]),
                                      !.sub = @ \o [i \in 1..Len(so.opts) |-> so.opts[i] @@ [nsLong |-> WithNs(ns, delim, so.opts[i].long),
                                                                                             envKey |-> IF so.opts[i].env = E THEN E ELSE IF ens = E THEN so.opts[i].env ELSE ens \o <<95>> \o so.opts[i].env]]]
                ELSE IF f.ftype \in {"group", "command", "posargs"} THEN [acc EXCEPT !.grey = TRUE]       \* an untagged struct field: flattened by the code; not generated
                ELSE LET b == BuildOpt(f) IN
                     IF b.err # "none" THEN [acc EXCEPT !.err = b.err]
                     ELSE IF b.isOpt THEN [acc EXCEPT !.top = Append(@, b.opt @@ [nsLong |-> b.opt.long, envKey |-> b.opt.env])] ELSE acc
      r == FoldLeft(step, [err |-> "none", top |-> <<>>, sub |-> <<>>, groups |-> <<>>, cmds |-> <<>>, args |-> <<>>, argsReq |-> FALSE, grey |-> FALSE],
                    [k \in 1..Len(fields) |-> k])
      all == r.top \o r.sub
  IN IF r.err # "none" THEN [err |-> r.err, grey |-> r.grey, model |-> NoModel]
     ELSE IF DupIn(all, [i \in 1..Len(all) |-> all[i].nsLong]) THEN [err |-> "ErrDuplicatedFlag", grey |-> r.grey, model |-> NoModel]
     ELSE [err |-> "none", grey |-> r.grey,
           model |-> [opts |-> all, groups |-> r.groups, cmds |-> r.cmds, args |-> r.args, argsReq |-> r.argsReq]]
=============================================================================
