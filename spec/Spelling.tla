------------------------------ MODULE Spelling ------------------------------
(***************************************************************************)
(* C02: the documented spellings of one option occurrence and when two of  *)
(* them are interchangeable.                                               *)
(*   how \in {"s-concat", "s-eq", "s-sep", "l-eq", "l-sep"}                *)
(*   -xV        -x=V      -x V      --name=V  --name V                     *)
(* and each with V written as a double-quoted Go string literal.           *)
(***************************************************************************)
EXTENDS ArgParse

Hows == {"s-concat", "s-eq", "s-sep", "l-eq", "l-sep"}
HowsOf(od) == (IF od.short # 0 THEN {"s-concat", "s-eq", "s-sep"} ELSE {}) \cup (IF od.long # E THEN {"l-eq", "l-sep"} ELSE {})

\* the tokens of one occurrence; txt is the value text as written (already quoted if it is to be quoted)
Spell(nsl, od, txt, how) ==
  CASE how = "s-concat" -> <<(<<DASH, od.short>> \o txt)>>
    [] how = "s-eq"     -> <<(<<DASH, od.short, EQ>> \o txt)>>
    [] how = "s-sep"    -> <<(<<DASH, od.short>>), txt>>
    [] how = "l-eq"     -> <<(<<DASH, DASH>> \o nsl \o <<EQ>> \o txt)>>
    [] how = "l-sep"    -> <<(<<DASH, DASH>> \o nsl), txt>>

\* Admissibility of a pair of spellings of value v for option ai.opt (DESIGN 5.2), from the documentation:
\*  - the separate-token forms are excepted for options with an optional argument and for a value text that has
\*    option syntax (other than a negative number given to a signed numeric option), or is "--" under PassDoubleDash;
\*  - two collisions are inherent in the grammar and no parser can avoid them: -xV with V empty is the bare -x,
\*    and -xV with V starting with '=' is the -x=V' spelling;
\*  - custom ValueValidator types are not among the documented exceptions and are left out;
\*  - both names must denote the option wherever they are used (no other declaration shares them).
\* ai: [opt, from, to, value]  where value is the text as written in the vector.
Admissible(f, ai, popts) ==
  LET od == f.opts[ai.opt]
      v == ai.value
      sepUsed == ai.from \in {"s-sep", "l-sep"} \/ ai.to \in {"s-sep", "l-sep"}
      concatUsed == ai.from = "s-concat" \/ ai.to = "s-concat"
  IN /\ ~od.validator
     /\ \A p \in 1..Len(f.opts) : p # ai.opt =>
            (/\ (od.short = 0 \/ f.opts[p].short # od.short)
             /\ (od.long = E \/ f.nsLong[p] # f.nsLong[ai.opt]))
     /\ sepUsed => (/\ ~od.optional
                    /\ ~(IsOption(v) /\ ~(SignedNumber(od) /\ NegNumberLike(v)))
                    /\ ~(InSeq(popts, "PassDoubleDash") /\ v = <<DASH, DASH>>))
     /\ concatUsed => (v # E /\ v[1] # EQ)
=============================================================================
