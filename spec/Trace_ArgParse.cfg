SPECIFICATION Spec
CONSTANT Defects = {}
CHECK_DEADLOCK FALSE
POSTCONDITION Post
