-------------------------- MODULE Debug_Completion --------------------------
EXTENDS Trace_Completion
DNext == /\ l <= Len(TraceRecs) /\ l' = l + 1
         /\ LET rec == TraceRecs[l] s0 == Start(rec) ws == IF rec.words = <<>> THEN <<E>> ELSE rec.words ctx == Context(s0, ws) IN
            PrintT(<<"SPEC", l, ToJson([decl |-> DeclItems(s0, ws), walk |-> WalkItems(s0, ws), valid |-> ctx.valid, grey |-> ctx.grey, pending |-> ctx.pending,
                                         cmd |-> ctx.s.cmd, retargs |-> ctx.s.retargs, err |-> ctx.s.err.t, role |-> ctx.s.role])>>)
DSpec == (l = 1) /\ [][DNext]_l
=============================================================================
