------------------------------ MODULE MC_Spell ------------------------------
(***************************************************************************)
(* C02 on the specification, exhaustively: for every catalogue option that *)
(* takes an argument, every value of a value alphabet, every pair of       *)
(* admissible spellings (raw and quoted), every position inside a context  *)
(* vector, the two parses have the same outcome.  Also: a cluster -ab..    *)
(* of declared flags equals the separate tokens -a -b ...                  *)
(* Each pair is printed as a scenario and replayed on the real code.       *)
(***************************************************************************)
EXTENDS Spelling, FTab, Json

CONSTANTS DeclIds, CtxLen, POptSets, Emit
VARIABLE pr

Decls == ndJsonDeserialize("catalog_decls.ndjson")

ValuesOf(od) ==
  IF od.choices # <<>> THEN {od.choices[1], <<122>>}
  ELSE IF od.kind = "map" THEN {<<107, 58, 53>>, <<107, 58>>, <<107>>, <<58, 118>>, <<233, 58, 49>>}     \* k:5 k: k :v e-acute:1
  ELSE IF IsSignedInt(od.vtype) THEN {<<53>>, <<DASH, 53>>, <<120>>, E, <<48, 48, 55>>}                      \* 5 -5 x "" 007
  ELSE IF IsUnsignedInt(od.vtype) THEN {<<53>>, <<DASH, 49>>, E}
  ELSE {E, <<97>>, <<EQ, 97>>, <<97, EQ, 98>>, <<97, SPACE, 98>>, <<QUOTE>>, <<DASH>>, <<DASH, DASH>>, <<DASH, 53>>,
        <<DASH, 120>>, <<DASH, DASH, 120>>, <<DASH, DASH, DASH>>, <<233>>, <<19990, 30028>>, <<107, 58, 118>>, <<QUOTE, 97, QUOTE>>}

\* context tokens: things that do not interact with the occurrence except through the parser
CtxTokens(d) == {<<119>>, <<DASH, DASH>>} \cup
                UNION {{d.cmds[c].name} : c \in 2..Len(d.cmds)} \cup
                UNION {(IF FlagLike(d.opts[o]) /\ d.opts[o].short # 0 THEN {<<DASH, d.opts[o].short>>} ELSE {}) : o \in 1..Len(d.opts)}
Ctxs(d) == UNION {[1..n -> CtxTokens(d)] : n \in 0..CtxLen}

Written(v, q) == IF q THEN QuoteS(v) ELSE v

Scn(di, po, argv) == [decl |-> di, popts |-> po, handler |-> "none", cmdHandler |-> TRUE, execErr |-> FALSE, env |-> <<>>, argv |-> argv, completion |-> E, hasPrelude |-> FALSE, prelude |-> <<>>]

\* Two levels so that TLC's workers share the enumeration: Init picks declaration, parser options, option and the
\* two spellings; Next picks value, quoting and context.
Init == \E di \in DeclIds, po \in POptSets :
          \E o \in {o \in 1..Len(Decls[di].opts) : ~FlagLike(Decls[di].opts[o])} :
             \E h1 \in HowsOf(Decls[di].opts[o]), h2 \in HowsOf(Decls[di].opts[o]) :
                pr = [stage |-> "seed", di |-> di, po |-> po, opt |-> o, from |-> h1, to |-> h2]

Expand ==
  /\ pr.stage = "seed"
  /\ LET d == Decls[pr.di]
         od == d.opts[pr.opt]
         nsl == NsLong(d, od)
     IN \E v \in ValuesOf(od), q1 \in BOOLEAN, q2 \in BOOLEAN :
          \E before \in Ctxs(d), after \in Ctxs(d) :
             LET t1 == Spell(nsl, od, Written(v, q1), pr.from)
                 t2 == Spell(nsl, od, Written(v, q2), pr.to)
                 \* (IF, not \/: TLC branches on disjunctions inside actions)
                 distinct == IF pr.from # pr.to THEN TRUE ELSE q1 # q2
                 \* a quoting layer exists and V itself is not a literal
                 quotable == IF q1 \/ q2 THEN od.unquote /\ (IF v = E THEN TRUE ELSE v[1] # QUOTE) ELSE TRUE
             IN /\ distinct /\ quotable
                /\ pr' = [stage |-> "pair", di |-> pr.di, po |-> pr.po,
                          pair |-> [opt |-> pr.opt, from |-> pr.from, to |-> pr.to, v |-> v, q1 |-> q1, q2 |-> q2],
                          pos |-> Len(before) + 1, a1 |-> before \o t1 \o after, a2 |-> before \o t2 \o after]

Next == Expand
Spec == Init /\ [][Next]_pr

F1 == Run(S0(Decls[pr.di], Scn(pr.di, pr.po, pr.a1), FTab))
F2 == Run(S0(Decls[pr.di], Scn(pr.di, pr.po, pr.a2), FTab))

Outcome(f) == [err |-> f.err.t, val |-> IF f.err.t = "none" THEN f.val ELSE <<>>, pos |-> IF f.err.t = "none" THEN f.pos ELSE <<>>,
               retargs |-> IF f.err.t = "none" THEN f.retargs ELSE <<>>, calls |-> SelectSeq(f.events, LAMBDA e : e.k = "call"),
               chain |-> f.chain]

AltInfo(w) == [opt |-> pr.pair.opt, from |-> pr.pair.from, to |-> pr.pair.to, value |-> w, pos |-> pr.pos]
\* admissible for both written forms of the value, and parsed as an occurrence in both vectors
InDomain(f1, f2) ==
  /\ Admissible(f1, AltInfo(Written(pr.pair.v, pr.pair.q1)), pr.po)
  /\ Admissible(f1, AltInfo(Written(pr.pair.v, pr.pair.q2)), pr.po)
  /\ ~f1.grey /\ ~f2.grey
  /\ f1.role[pr.pos] = "option" /\ f2.role[pr.pos] = "option"

PairAgree == pr.stage = "pair" => LET f1 == F1 f2 == F2 IN InDomain(f1, f2) => Outcome(f1) = Outcome(f2)
\* non-vacuity: how many pairs are inside the domain is reported through TLCGet/TLCSet counters by the check script

EmitPair == (Emit /\ pr.stage = "pair") => PrintT("SCN " \o ToJson([Scn(pr.di, pr.po, pr.a1) EXCEPT !.argv = pr.a1] @@
                                             [alt |-> pr.a2, altInfo |-> AltInfo(Written(pr.pair.v, pr.pair.q1)) @@ [has2 |-> TRUE, value2 |-> Written(pr.pair.v, pr.pair.q2), quoted |-> pr.pair.q1 \/ pr.pair.q2]]))
=============================================================================
