----------------------------- MODULE MC_Sources -----------------------------
(***************************************************************************)
(* C05: defaults and value-source precedence, exhaustively per option:     *)
(* every subset of {command-line occurrences, normal INI read, as-defaults *)
(* INI read (before or after the command line), environment variable      *)
(* set / empty / unset, default tags, preset field}, with 1 or 2 values    *)
(* per source, on every option of the sources catalogue declaration.       *)
(* The operational protocol (Option.Set / setDefault / clearDefault /      *)
(* IniParser.parse, i.e. ArgParse.tla + Ini.tla) is checked against the    *)
(* declarative ranking  cli > ini > ini-as-defaults > env > default > init *)
(* with replace-never-extend for slices and maps.                          *)
(***************************************************************************)
EXTENDS Ini, FTab, Json

CONSTANTS DeclIds, Emit
VARIABLE st

Decls == ndJsonDeserialize("catalog_decls.ndjson")

Scn(di, env) == [decl |-> di, popts |-> <<>>, handler |-> "none", cmdHandler |-> FALSE, execErr |-> FALSE, env |-> env, argv |-> <<>>, completion |-> E, hasPrelude |-> FALSE, prelude |-> <<>>]

\* value texts, tagged by source: <<letter, digit>>
Tagged(c, n) == [i \in 1..n |-> <<c, 48 + i>>]                          \* c1 c2 / n1 n2 / a1 a2
AsArg(od, v) == IF od.kind = "map" THEN <<107, 58>> \o v ELSE v          \* maps: k:<value>
Multi(od) == od.kind \in {"slice", "map"}

\* what a source denotes once stored: scalar keeps the last, slice all in order, map the last per key (one key here)
Keep(od, vs) == IF vs = <<>> THEN <<>>
                ELSE IF od.kind = "map" THEN <<<<(<<107>>), vs[Len(vs)]>>>>
                ELSE IF od.kind = "slice" THEN vs
                ELSE <<vs[Len(vs)]>>

FlagArgs(s, o, vs) == LET od == s.opts[o] IN
                      [i \in 1..Len(vs) |-> IF od.long # E THEN <<DASH, DASH>> \o s.nsLong[o] \o <<EQ>> \o AsArg(od, vs[i])
                                            ELSE <<DASH, od.short, EQ>> \o AsArg(od, vs[i])]
IniText(s, o, vs) == FoldLeft(LAMBDA acc, v : acc \o s.opts[o].field \o <<SPACE, EQ, SPACE>> \o AsArg(s.opts[o], v) \o <<NL>>, E, vs)

EnvVal(od) == IF od.envDelim # E THEN (IF od.kind = "map" THEN <<107, 58, 101, 49>> \o od.envDelim \o <<106, 58, 101, 50>>    \* k:e1;j:e2
                                       ELSE <<101, 49>> \o od.envDelim \o <<101, 50>>)                                              \* e1,e2
              ELSE <<101, 49>>
\* what the environment denotes for the option
EnvDenotes(od) == IF od.envDelim # E THEN (IF od.kind = "map" THEN <<<<(<<107>>), <<101, 49>>>>, <<(<<106>>), <<101, 50>>>>>> ELSE <<<<101, 49>>, <<101, 50>>>>)
                  ELSE IF od.kind = "map" THEN <<<<(<<101, 49>>), E>>>>        \* no delimiter: the text "e1" is a key without value
                  ELSE <<<<101, 49>>>>
DefaultDenotes(s, o) == DefaultVal(s, o)

\* the history: calls in order
Hist(h) ==   \* h = [n, a, apos, c]: normal entries, as-defaults entries, position of the as-defaults read, cli occurrences
  (IF h.n > 0 THEN <<"iniN">> ELSE <<>>)
  \o (IF h.a > 0 /\ h.apos \in {"before", "both"} THEN <<"iniD">> ELSE <<>>)
  \o <<"args">>
  \o (IF h.a > 0 /\ h.apos \in {"after", "both"} THEN <<"iniD">> ELSE <<>>)

RunHist(s0, o, h) ==
  FoldLeft(LAMBDA s, op :
             CASE op = "iniN" -> LET t == IniText(s, o, Tagged(110, h.n)) IN IniParse(s, t, FALSE, IdentityOrder(ReadIni(t)))
               [] op = "iniD" -> LET t == IniText(s, o, Tagged(97, h.a)) IN IniParse(s, t, TRUE, IdentityOrder(ReadIni(t)))
               [] OTHER -> ParseArgsCall(s, FlagArgs(s, o, Tagged(99, h.c))),
           s0, Hist(h))

Expected(s0, o, h, envState) ==
  LET od == s0.opts[o] IN
  IF h.c > 0 THEN Keep(od, Tagged(99, h.c))
  ELSE IF h.n > 0 THEN Keep(od, Tagged(110, h.n))
  ELSE IF h.a > 0 THEN Keep(od, Tagged(97, h.a))
  ELSE IF od.env # E /\ envState = "set" THEN EnvDenotes(od)
  ELSE IF od.env # E /\ envState = "empty" THEN (IF od.kind = "map" THEN <<<<E, E>>>> ELSE <<E>>)       \* set but empty: the empty text is the value
  ELSE IF od.defaults # <<>> THEN DefaultDenotes(s0, o)
  ELSE s0.opts[o].init

Init == \E di \in DeclIds : st = [stage |-> "seed", di |-> di]
Expand ==
  /\ st.stage = "seed"
  /\ LET d == Decls[st.di] IN
     \E o \in {o \in 1..Len(d.opts) : ~FlagLike(d.opts[o]) /\ d.opts[o].vtype = "string" /\ d.opts[o].choices = <<>> /\ ~d.opts[o].noIni /\ d.opts[o].cmd = 1} :      \* the tagged values are texts
       \E n \in 0..2, a \in 0..2, apos \in {"before", "after", "both"}, c \in 0..2, envState \in {"unset", "set", "empty"} :
          /\ (d.opts[o].env = E => envState = "unset")
          /\ (a = 0 => apos = "before")
          /\ st' = [stage |-> "hist", di |-> st.di, o |-> o, h |-> [n |-> n, a |-> a, apos |-> apos, c |-> c], envState |-> envState]
Next == Expand
Spec == Init /\ [][Next]_st

EnvOf(d, od, envState) == IF envState = "unset" THEN <<>>
                          ELSE <<[k |-> EnvKey(d, od), v |-> IF envState = "set" THEN EnvVal(od) ELSE E]>>

Precedence ==
  (st.stage = "hist") =>
    LET d == Decls[st.di]
        od == d.opts[st.o]
        s0 == S0(d, Scn(st.di, EnvOf(d, od, st.envState)), FTab)
        fin == RunHist(s0, st.o, st.h)
        same(x, y) == IF od.kind = "map" THEN SeqToSet(x) = SeqToSet(y) ELSE x = y
    IN /\ fin.err.t = "none" /\ fin.ierr.t = "none"
       /\ same(fin.val[st.o], Expected(s0, st.o, st.h, st.envState))

Call(op, text, asDef, argv) == [op |-> op, text |-> text, asDefaults |-> asDef, argv |-> argv, iniOpts |-> <<>>, fromWrite |-> 0]
EmitScn ==
  (Emit /\ st.stage = "hist") =>
    LET d == Decls[st.di]
        od == d.opts[st.o]
        s0 == S0(d, Scn(st.di, <<>>), FTab)
        calls == [k \in 1..Len(Hist(st.h)) |->
                    LET op == Hist(st.h)[k] IN
                    CASE op = "iniN" -> Call("ini", IniText(s0, st.o, Tagged(110, st.h.n)), FALSE, <<>>)
                      [] op = "iniD" -> Call("ini", IniText(s0, st.o, Tagged(97, st.h.a)), TRUE, <<>>)
                      [] OTHER -> Call("args", E, FALSE, FlagArgs(s0, st.o, Tagged(99, st.h.c)))]
    IN PrintT("SCN " \o ToJson([fam |-> "session", decl |-> st.di, popts |-> <<>>, env |-> EnvOf(d, od, st.envState), calls |-> calls,
                                repeat |-> 1, tags |-> <<"sources", "mc">>, presets |-> <<>>]))
=============================================================================
