--------------------------------- MODULE Tag ---------------------------------
(***************************************************************************)
(* C19: struct tags are read faithfully or rejected at setup.              *)
(*   ScanTag   the tag scanner of multitag.go as a character automaton:    *)
(*             skip blanks, key, ':', '"', value with '\' escapes, typed   *)
(*             errors; values decoded with strconv.Unquote (Quote.tla)     *)
(*   Legal     the declarative grammar of legal tags (MC_Tag checks the    *)
(*             two equivalent on all short strings)                        *)
(*   BuildOpt / BuildModel   tag values -> the public model (last value    *)
(*             for single attributes, all values in order for default /    *)
(*             choice / alias / optional-value, truthiness of marks, short *)
(*             name, positional counts) and the setup errors (ErrTag,      *)
(*             ErrShortNameTooLong, ErrInvalidTag, ErrDuplicatedFlag)      *)
(***************************************************************************)
EXTENDS Quote, TLC

CONSTANT Defects          \* no defect switch is used by this module (kept so that every trace configuration has the same shape)

---------------------------------------------------------------------------
(* scanner: result [ok, unspec, kv] where kv is the sequence of <<key, value>> in order *)
TagOk(kv) == [ok |-> TRUE, unspec |-> FALSE, kv |-> kv]
TagErr == [ok |-> FALSE, unspec |-> FALSE, kv |-> <<>>]
TagUnspec == [ok |-> FALSE, unspec |-> TRUE, kv |-> <<>>]

\* the automaton state: mode "skip" (blanks before a key), "key", "q" (expect the opening quote), "val" (inside the value),
\* "esc" (after a backslash inside the value)
TStart == [mode |-> "skip", key |-> E, raw |-> E, kv |-> <<>>, res |-> ""]
TStep(a, c) ==
  IF a.res # "" THEN a
  ELSE IF a.mode = "skip" THEN
       IF c = SPACE THEN a
       ELSE IF c = COLON THEN [a EXCEPT !.mode = "q", !.key = E]                 \* an empty key is scanned like any other
       ELSE IF c = QUOTE THEN [a EXCEPT !.res = "err"]                          \* expected `:' after key name, but got `"'
       ELSE [a EXCEPT !.mode = "key", !.key = <<c>>]
  ELSE IF a.mode = "key" THEN
       IF c = COLON THEN [a EXCEPT !.mode = "q"]
       ELSE IF c = SPACE \/ c = QUOTE THEN [a EXCEPT !.res = "err"]
       ELSE [a EXCEPT !.key = Append(@, c)]
  ELSE IF a.mode = "q" THEN
       IF c = QUOTE THEN [a EXCEPT !.mode = "val", !.raw = E] ELSE [a EXCEPT !.res = "err"]
  ELSE IF a.mode = "val" THEN
       IF c = QUOTE THEN
            LET u == Unquote(<<QUOTE>> \o a.raw \o <<QUOTE>>) IN
            IF u.unspec THEN [a EXCEPT !.res = "unspec"]
            ELSE IF ~u.ok THEN [a EXCEPT !.res = "err"]
            ELSE [a EXCEPT !.mode = "skip", !.kv = Append(@, <<a.key, u.v>>), !.key = E, !.raw = E]
       ELSE IF c = NL THEN [a EXCEPT !.res = "err"]
       ELSE IF c = BACKSLASH THEN [a EXCEPT !.mode = "esc", !.raw = Append(@, c)]
       ELSE [a EXCEPT !.raw = Append(@, c)]
  ELSE \* "esc": the character after a backslash is taken whatever it is
       [a EXCEPT !.mode = "val", !.raw = Append(@, c)]

ScanTag(t) ==
  LET r == FoldLeft(TStep, TStart, t) IN
  IF r.res = "unspec" THEN TagUnspec
  ELSE IF r.res = "err" \/ r.mode # "skip" THEN TagErr         \* the tag ends inside a key, before or inside a value
  ELSE TagOk(r.kv)

---------------------------------------------------------------------------
(* the grammar, declaratively:  tag ::= ( ' '* key ':' '"' body '"' )* ' '*                                   *)
(*   key  ::= any characters except blank, ':' and '"' (possibly none)                                          *)
(*   body ::= ( any character except '"', '\' and newline | '\' any character )*   and the literal "body" is a     *)
(*            valid Go string literal                                                                              *)
\* the end of the body that starts at position p (index of the closing quote), 0 if there is none
RECURSIVE BodyEnd(_, _)
BodyEnd(t, p) == IF p > Len(t) THEN 0
                 ELSE IF t[p] = QUOTE THEN p
                 ELSE IF t[p] = NL THEN 0
                 ELSE IF t[p] = BACKSLASH THEN (IF p + 1 > Len(t) THEN 0 ELSE BodyEnd(t, p + 2))
                 ELSE BodyEnd(t, p + 1)
RECURSIVE Legal(_)
Legal(t) ==
  LET s == LET k == SelectInSeq(t, LAMBDA c : c # SPACE) IN IF k = 0 THEN E ELSE Drop(t, k - 1) IN     \* blanks skipped
  IF s = E THEN TRUE
  ELSE LET c == SelectInSeq(s, LAMBDA x : x \in {SPACE, COLON, QUOTE}) IN
       /\ c # 0 /\ s[c] = COLON
       /\ c + 1 <= Len(s) /\ s[c + 1] = QUOTE
       /\ LET e == BodyEnd(s, c + 2) IN
          /\ e # 0
          /\ Unquote(SubSeq(s, c + 1, e)).ok
          /\ Legal(Drop(s, e))

---------------------------------------------------------------------------
(* tag values -> attributes *)
GetMany(kv, key) == LET ix == SelectSeq([i \in 1..Len(kv) |-> i], LAMBDA i : kv[i][1] = key) IN [k \in 1..Len(ix) |-> kv[ix[k]][2]]
Get(kv, key) == LET vs == GetMany(kv, key) IN IF vs = <<>> THEN E ELSE vs[Len(vs)]          \* the last value given
S_(str) == str
K(str) == str
Falsy(v) == v \in {E, <<102, 97, 108, 115, 101>>, <<110, 111>>, <<48>>}                      \* "" false no 0

\* attribute names as character sequences
kShort == <<115, 104, 111, 114, 116>>
kLong == <<108, 111, 110, 103>>
kIniName == <<105, 110, 105, 45, 110, 97, 109, 101>>
kNoFlag == <<110, 111, 45, 102, 108, 97, 103>>
kDescription == <<100, 101, 115, 99, 114, 105, 112, 116, 105, 111, 110>>
kLongDescription == <<108, 111, 110, 103, 45>> \o kDescription
kDefault == <<100, 101, 102, 97, 117, 108, 116>>
kOptionalValue == <<111, 112, 116, 105, 111, 110, 97, 108, 45, 118, 97, 108, 117, 101>>
kOptional == <<111, 112, 116, 105, 111, 110, 97, 108>>
kRequired == <<114, 101, 113, 117, 105, 114, 101, 100>>
kChoice == <<99, 104, 111, 105, 99, 101>>
kHidden == <<104, 105, 100, 100, 101, 110>>
kEnv == <<101, 110, 118>>
kEnvDelim == <<101, 110, 118, 45, 100, 101, 108, 105, 109>>
kValueName == <<118, 97, 108, 117, 101, 45, 110, 97, 109, 101>>
kDefaultMask == <<100, 101, 102, 97, 117, 108, 116, 45, 109, 97, 115, 107>>
kGroup == <<103, 114, 111, 117, 112>>
kNamespace == <<110, 97, 109, 101, 115, 112, 97, 99, 101>>
kEnvNamespace == <<101, 110, 118, 45>> \o kNamespace
kCommand == <<99, 111, 109, 109, 97, 110, 100>>
kSubOptional == <<115, 117, 98, 99, 111, 109, 109, 97, 110, 100, 115, 45, 111, 112, 116, 105, 111, 110, 97, 108>>
kAlias == <<97, 108, 105, 97, 115>>
kPositionalArgs == <<112, 111, 115, 105, 116, 105, 111, 110, 97, 108, 45, 97, 114, 103, 115>>
kPositionalArgName == <<112, 111, 115, 105, 116, 105, 111, 110, 97, 108, 45, 97, 114, 103, 45, 110, 97, 109, 101>>

BoolLike(ftype) == ftype \in {"bool", "bools", "pbool", "func0"}

\* one option field: [isOpt, err, opt]
BuildOpt(field) ==
  LET sc == ScanTag(field.tag)
      kv == sc.kv
      short == Get(kv, kShort)
      long == Get(kv, kLong)
  IN IF sc.unspec THEN [isOpt |-> FALSE, err |-> "unspec", opt |-> <<>>]
     ELSE IF ~sc.ok THEN [isOpt |-> FALSE, err |-> "ErrTag", opt |-> <<>>]
     ELSE IF Get(kv, kNoFlag) # E THEN [isOpt |-> FALSE, err |-> "none", opt |-> <<>>]
     ELSE IF long = E /\ short = E /\ Get(kv, kIniName) = E THEN [isOpt |-> FALSE, err |-> "none", opt |-> <<>>]
     ELSE IF Len(SanitizeS(short)) > 1 THEN [isOpt |-> FALSE, err |-> "ErrShortNameTooLong", opt |-> <<>>]
     ELSE IF BoolLike(field.ftype) /\ GetMany(kv, kDefault) # <<>> THEN [isOpt |-> FALSE, err |-> "ErrInvalidTag", opt |-> <<>>]
     ELSE [isOpt |-> TRUE, err |-> "none",
           opt |-> [field |-> field.name, short |-> IF short = E THEN 0 ELSE Sanitize(short[1]), long |-> long,
                    desc |-> Get(kv, kDescription), defaults |-> GetMany(kv, kDefault), optvals |-> GetMany(kv, kOptionalValue),
                    valueName |-> Get(kv, kValueName), mask |-> Get(kv, kDefaultMask),
                    optional |-> ~Falsy(Get(kv, kOptional)), required |-> ~Falsy(Get(kv, kRequired)), choices |-> GetMany(kv, kChoice),
                    hidden |-> ~Falsy(Get(kv, kHidden)), env |-> Get(kv, kEnv), envDelim |-> Get(kv, kEnvDelim)]]

\* positional count tag (command.go:183-206): "" -> (-1,-1); otherwise required = 1, maximum = -1, and then
\*   with a dash (split at the FIRST one): each side that strconv.ParseInt accepts (optional sign, decimal digits) replaces its bound;
\*   without a dash: the whole text, if ParseInt accepts it, replaces the required count
IsNum(t) == t # E /\ \A i \in 1..Len(t) : IsDigit(t[i])
NumVal(t) == FoldLeft(LAMBDA acc, c : acc * 10 + (c - 48), 0, t)
\* [ok, big, v]: big = too many digits to decide here (32-bit range)
PInt(t) == LET neg == t # E /\ t[1] = DASH
               body == IF t # E /\ t[1] \in {DASH, 43} THEN Tail(t) ELSE t IN
           IF ~IsNum(body) THEN [ok |-> FALSE, big |-> FALSE, v |-> 0]
           ELSE IF Len(body) > 9 THEN [ok |-> FALSE, big |-> TRUE, v |-> 0]
           ELSE [ok |-> TRUE, big |-> FALSE, v |-> IF neg THEN 0 - NumVal(body) ELSE NumVal(body)]
ReqOf(t) == IF t = E THEN [req |-> -1, max |-> -1, spec |-> TRUE]
            ELSE LET d == IndexOf(t, DASH) IN
                 IF d = 0 THEN LET w == PInt(t) IN [req |-> IF w.ok THEN w.v ELSE 1, max |-> -1, spec |-> ~w.big]
                 ELSE LET l == PInt(Take(t, d - 1))
                          r == PInt(Drop(t, d)) IN
                      [req |-> IF l.ok THEN l.v ELSE 1, max |-> IF r.ok THEN r.v ELSE -1, spec |-> ~l.big /\ ~r.big]
=============================================================================
