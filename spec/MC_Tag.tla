-------------------------------- MODULE MC_Tag --------------------------------
(***************************************************************************)
(* C19 on the specification:                                               *)
(*  - the scanner automaton (ScanTag) accepts exactly the strings of the   *)
(*    declarative tag grammar (Legal), on all strings up to MaxLen over    *)
(*    {a : " \ blank LF e-acute};                                          *)
(*  - a value body is decoded as the Go string literal it is: for all      *)
(*    bodies up to MaxBody over {a " \ blank LF e-acute n x 4 1} the tag   *)
(*    long:"o" env:"<body>" is scanned iff the literal is valid, and then  *)
(*    carries the decoded value.                                           *)
(* Every string is replayed on the real library as the tag of a field.     *)
(***************************************************************************)
EXTENDS Decl, Json
CONSTANTS MaxLen, MaxBody, Emit
VARIABLE st

Alpha == {97, COLON, QUOTE, BACKSLASH, SPACE, NL, 233}
BodyAlpha == {97, QUOTE, BACKSLASH, SPACE, NL, 233, 110, 120, 52, 49}
Prefix == <<108, 111, 110, 103, COLON, QUOTE, 111, QUOTE, SPACE, 101, 110, 118, COLON, QUOTE>>       \* long:"o" env:"

Init == st = [stage |-> "seed", n |-> 0, kind |-> "tag"] \/ st = [stage |-> "seed", n |-> 0, kind |-> "body"]
\* three levels, so that the workers share the enumeration: prefix of two characters, then the rest
Expand ==
  /\ st.stage = "seed"
  /\ \/ (st.kind = "tag" /\ \E n \in 0..2 : \E p \in [1..n -> Alpha] : st' = [stage |-> "pre", kind |-> "tag", p |-> p])
     \/ (st.kind = "body" /\ \E n \in 0..2 : \E p \in [1..n -> BodyAlpha] : st' = [stage |-> "pre", kind |-> "body", p |-> p])
Expand2 ==
  /\ st.stage = "pre"
  /\ \/ (st.kind = "tag" /\ \E n \in 0..(MaxLen - 2) : \E q \in [1..n -> Alpha] : (Len(st.p) = 2 \/ n = 0) /\ st' = [stage |-> "str", kind |-> "tag", t |-> st.p \o q])
     \/ (st.kind = "body" /\ \E n \in 0..(MaxBody - 2) : \E q \in [1..n -> BodyAlpha] : (Len(st.p) = 2 \/ n = 0) /\ st' = [stage |-> "str", kind |-> "body", t |-> st.p \o q])
Next == Expand \/ Expand2
Spec == Init /\ [][Next]_st

ScannerIsGrammar == (st.stage = "str" /\ st.kind = "tag") => (ScanTag(st.t).unspec \/ (ScanTag(st.t).ok <=> Legal(st.t)))
BodyDecoded ==
  (st.stage = "str" /\ st.kind = "body") =>
     LET lit == <<QUOTE>> \o st.t \o <<QUOTE>>
         u == Unquote(lit)
         sc == ScanTag(Prefix \o st.t \o <<QUOTE>>)
         \* the body must not contain an unescaped quote or newline for the tag to end where the literal ends
         whole == BodyEnd(lit, 2) = Len(lit)
     IN whole => (/\ sc.unspec <=> u.unspec
                  /\ sc.ok <=> u.ok
                  /\ sc.ok => Get(sc.kv, kEnv) = u.v)
Field(t) == [name |-> <<70, 49>>, ftype |-> "string", tag |-> t, sub |-> <<>>]
EmitScn == (Emit /\ st.stage = "str") =>
   PrintT("SCN " \o ToJson([fam |-> "decl", fields |-> <<Field(IF st.kind = "tag" THEN st.t ELSE Prefix \o st.t \o <<QUOTE>>)>>, tags |-> <<"mc", st.kind>>]))
=============================================================================
