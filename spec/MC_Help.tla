------------------------------- MODULE MC_Help -------------------------------
(***************************************************************************)
(* C16 / C17 on the specification: for every catalogue declaration, every  *)
(* selectable active chain and every terminal width 1..MaxWidth, the help  *)
(* text that the specification lays out (i) never needs a negative padding *)
(* (the generator cannot panic), (ii) satisfies the layout predicates -    *)
(* one description column, continuation lines indented to it, de-wrapped   *)
(* text equal to the original words, no line beyond the width when at      *)
(* least 10 columns remain - and (iii) shows exactly the visible items.    *)
(* Every case is printed as a scenario and replayed on the real code.      *)
(***************************************************************************)
EXTENDS HelpProps, FTab, Json
CONSTANTS DeclIds, MaxWidth, Emit
VARIABLE st

CDecls == ndJsonDeserialize("catalog_decls.ndjson")
\* the words that select command c: the names on the way, each preceded by one word per positional argument of its parent
\* (positionals are filled before a command name is looked for; behind a slice positional no command is reachable)
Fillers(cd) == IF \E i \in 1..Len(cd.args) : cd.args[i].slice THEN <<>> ELSE [i \in 1..Len(cd.args) |-> <<49>>]
RECURSIVE PathOf(_, _)
PathOf(d, c) == IF c = 1 THEN <<>> ELSE PathOf(d, d.cmds[c].parent) \o Fillers(d.cmds[d.cmds[c].parent]) \o <<d.cmds[c].name>>
MScn(di, argv, po) == [decl |-> di, popts |-> po, handler |-> "none", cmdHandler |-> FALSE, execErr |-> FALSE, env |-> <<>>, argv |-> argv,
                       completion |-> E, hasPrelude |-> FALSE, prelude |-> <<>>]

MInit == \E di \in DeclIds : \E c \in 1..Len(CDecls[di].cmds) : \E hf \in BOOLEAN :
            st = [stage |-> "seed", di |-> di, words |-> PathOf(CDecls[di], c), po |-> IF hf THEN <<"HelpFlag">> ELSE <<>>]
MExpand == st.stage = "seed" /\ \E w \in 0..MaxWidth : st' = [stage |-> "width", di |-> st.di, words |-> st.words, po |-> st.po, width |-> w]
MNext == MExpand
MSpec == MInit /\ [][MNext]_st

Lay ==
  (st.stage = "width") =>
    LET s0 == S0(CDecls[st.di], MScn(st.di, st.words, st.po), FTab)
        chain == Run(s0).chain
        pre == [k \in 1..Len(s0.opts) |-> IF k <= Len(s0.d.opts) THEN s0.opts[k].init ELSE <<>>]
        lines == HelpLines(s0, chain, st.width, pre)
    IN /\ ~HasPanic(lines)
       /\ LayoutOK(lines, s0, chain, st.width, pre)
       /\ ContentOK(lines, s0, chain, pre)
MEmit == (Emit /\ st.stage = "width") =>
            PrintT("SCN " \o ToJson([fam |-> "help", decl |-> st.di, popts |-> st.po, words |-> st.words, width |-> st.width, kind |-> "help", repeat |-> 1, tags |-> <<"mc">>]))
=============================================================================
