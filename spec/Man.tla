--------------------------------- MODULE Man ---------------------------------
(***************************************************************************)
(* The man page (man.go) as text: header, NAME, SYNOPSIS, DESCRIPTION,     *)
(* OPTIONS (every shown group of the root: sub-section header, one .TP     *)
(* entry per shown option with its description) and COMMANDS (every        *)
(* visible command in sorted order, recursively: header, descriptions,     *)
(* usage line, aliases, its options, its sub-commands).  Unlike the help   *)
(* text the man page is not restricted to the active chain and it lists    *)
(* the built-in help group of every command.                               *)
(* Generated from Man.tla.in by tools/tlastr.py (string literals become    *)
(* code point tuples).  The first line carries today's date (or            *)
(* SOURCE_DATE_EPOCH); only its prefix is specified.                       *)
(***************************************************************************)
EXTENDS HelpProps

\* formatForMan: `text' becomes bold, everything is backslash-quoted; a back-quote without a closing quote is dropped
RECURSIVE FormatForMan(_)
FormatForMan(t) ==
  LET b == IndexOf(t, 96) IN
  IF b = 0 THEN ManQ(t)
  ELSE LET rest == Drop(t, b)
           c == IndexOf(rest, 39) IN
       IF c = 0 THEN ManQ(Take(t, b - 1)) \o ManQ(rest)
       ELSE ManQ(Take(t, b - 1)) \o <<92, 102, 66>> \o ManQ(Take(rest, c - 1)) \o <<92, 102, 80>> \o FormatForMan(Drop(rest, c))

\* direct child groups of the command's own group (the built-in help group is one of them when HelpFlag is set)
HasSubGroups(s, c) ==
  LET own == OwnGroup(s.d, c) IN
  HelpOptOf(s, c) # <<>> \/ \E g \in 1..Len(s.d.groups) : s.d.groups[g].cmd = c /\ ~s.d.groups[g].own /\ s.d.groups[g].parent = own

\* one entry: .TP, the names line, the description
ManOptionText(s, o) ==
  <<46, 84, 80, 10>> \o ManEntry(s, o) \o <<NL>>
  \o (IF s.opts[o].desc # E THEN FormatForMan(s.opts[o].desc) \o <<NL>> ELSE E)

\* writeManPageOptions for command c
ManOptionsText(s, c) ==
  LET sub == HasSubGroups(s, c)
      grp(acc, g) ==
        IF ~GroupShows(s, g) THEN acc
        ELSE LET gd == s.d.groups[g]
                 ldesc == IF gd.own THEN s.d.cmds[c].longDesc ELSE E       \* only a command's own group carries a long description here
                 hdr == IF gd.desc # E /\ sub
                        THEN <<46, 83, 83, 32>> \o gd.desc \o <<NL>> \o (IF ldesc # E THEN FormatForMan(ldesc) \o <<NL>> ELSE E)
                        ELSE E
                 os == SelectSeq(OptsOfGroup(s, g), LAMBDA o : ShowOpt(s.opts[o])) IN
             acc \o hdr \o FoldLeft(LAMBDA a2, o : a2 \o ManOptionText(s, o), E, os)
      body == FoldLeft(grp, E, GroupsOf(s.d, c))
      hs == HelpOptOf(s, c)
  IN body \o (IF hs = <<>> THEN E
              ELSE <<46, 83, 83, 32, 72, 101, 108, 112, 32, 79, 112, 116, 105, 111, 110, 115, 10>> \o FoldLeft(LAMBDA a2, o : a2 \o ManOptionText(s, o), E, hs))

SortedVisibleSubs(s, c) ==
  LET subs == VisibleSubs(s, c)
      names == SortedVisibleNames(s, c) IN
  [i \in 1..Len(names) |-> subs[FirstIdx(subs, LAMBDA k : s.d.cmds[k].name = names[i])]]

RECURSIVE ManCommandText(_, _, _, _)
ManSubcommandsText(s, name, usagePrefix, c) ==
  FoldLeft(LAMBDA acc, k : acc \o ManCommandText(s, IF name = E THEN s.d.cmds[k].name ELSE name \o <<SPACE>> \o s.d.cmds[k].name, usagePrefix, k),
           E, SortedVisibleSubs(s, c))
ManCommandText(s, name, usagePrefix, k) ==
  LET cd == s.d.cmds[k]
      cmdstart == <<84, 104, 101, 32>> \o ManQ(cd.name) \o <<32, 99, 111, 109, 109, 97, 110, 100>>
      long == IF cd.longDesc = E THEN E
              ELSE <<NL>> \o (IF HasPrefix(cd.longDesc, cmdstart)
                              THEN <<84, 104, 101, 32, 92, 102, 73>> \o ManQ(cd.name) \o <<92, 102, 80, 32, 99, 111, 109, 109, 97, 110, 100>> \o FormatForMan(Drop(cd.longDesc, Len(cmdstart)))
                              ELSE FormatForMan(cd.longDesc)) \o <<NL>>
      pre == usagePrefix \o <<SPACE>> \o cd.name
      usage == IF HasHelpOptions(s, k) THEN <<LBRACK>> \o cd.name \o <<45, 79, 80, 84, 73, 79, 78, 83, 93>> ELSE E
      nextPrefix == IF usage = E THEN pre ELSE pre \o <<SPACE>> \o usage
  IN <<46, 83, 83, 32>> \o name \o <<NL>> \o cd.desc \o <<NL>> \o long
     \o (IF usage # E THEN <<10, 92, 102, 66, 85, 115, 97, 103, 101, 92, 102, 80, 58, 32>> \o ManQ(pre) \o <<SPACE>> \o ManQ(usage) \o <<10, 46, 84, 80, 10>> ELSE E)
     \o (IF cd.aliases # <<>> THEN <<10, 92, 102, 66, 65, 108, 105, 97, 115, 101, 115, 92, 102, 80, 58, 32>> \o ManQ(Join(cd.aliases, <<44, 32>>)) \o <<10, 10>> ELSE E)
     \o ManOptionsText(s, k)
     \o ManSubcommandsText(s, name, nextPrefix, k)

\* the page after its first line (.TH name 1 "date")
ManBodyText(s) ==
  LET root == s.d.cmds[1]
      usage == <<91, 79, 80, 84, 73, 79, 78, 83, 93>> IN
  <<46, 83, 72, 32, 78, 65, 77, 69, 10>> \o ManQ(root.name) \o <<32, 92, 45, 32>> \o ManQ(root.desc) \o <<NL>>
  \o <<46, 83, 72, 32, 83, 89, 78, 79, 80, 83, 73, 83, 10, 92, 102, 66>> \o ManQ(root.name) \o <<92, 102, 80, 32>> \o usage \o <<NL>>
  \o <<46, 83, 72, 32, 68, 69, 83, 67, 82, 73, 80, 84, 73, 79, 78, 10>> \o FormatForMan(root.longDesc) \o <<NL>>
  \o <<46, 83, 72, 32, 79, 80, 84, 73, 79, 78, 83, 10>> \o ManOptionsText(s, 1)
  \o (IF VisibleSubs(s, 1) # <<>> THEN <<46, 83, 72, 32, 67, 79, 77, 77, 65, 78, 68, 83, 10>> \o ManSubcommandsText(s, E, root.name \o <<SPACE>> \o usage, 1) ELSE E)

ManTHPrefix(s) == <<46, 84, 72, 32>> \o ManQ(s.d.cmds[1].name) \o <<32, 49, 32, 34>>

\* as lines; the text ends with a newline, which closes the last line
ManBodyLines(s) == LET ps == Split(ManBodyText(s), NL) IN SubSeq(ps, 1, Len(ps) - 1)

\* fidelity: the real page is the specified one, line by line
ManExact(lines, s) ==
  /\ lines # <<>> /\ HasPrefix(lines[1], ManTHPrefix(s))
  /\ Tail(lines) = ManBodyLines(s)
=============================================================================
