---------------------------- MODULE Trace_Session ----------------------------
(***************************************************************************)
(* Trace validation for histories of API calls on one parser: INI reads in *)
(* either mode, ParseArgs, INI writes, fresh parser.  One TLC step consumes*)
(* one recorded session; inside it the specification is stepped call by    *)
(* call and compared with what the real code reported after each call.     *)
(* Serves C05, C12, C13, C14 and the INI part of C15.                      *)
(***************************************************************************)
EXTENDS Ini, FTab, Json

VARIABLE l

TraceRecs == ndJsonDeserialize("trace.ndjson")
Decls == ndJsonDeserialize("decls.ndjson")
Props == {"C05", "C06", "C12", "C13", "C14", "C15", "DRIFT"}
B(x) == IF x THEN 1 ELSE 0

Scn(rec) == [decl |-> rec.decl, popts |-> rec.popts, handler |-> "none", cmdHandler |-> FALSE, execErr |-> FALSE, env |-> rec.env, argv |-> <<>>, completion |-> E, hasPrelude |-> FALSE, prelude |-> <<>>]
\* presets of the scenario: texts stored into the field before the first call (maps as key:value)
PresetVal(od, vals) == IF od.kind = "map" THEN FoldLeft(LAMBDA m, t : MapPut(m, MapKey(t), MapVal(t)), <<>>, vals) ELSE vals
SInit(rec) == LET s == S0(Decls[rec.decl], Scn(rec), FTab) IN
              FoldLeft(LAMBDA acc, ps : [acc EXCEPT !.val[ps.opt] = PresetVal(acc.opts[ps.opt], ps.vals)], s, rec.presets)
\* a fresh parser: nothing preset
Fresh(rec) == LET s == S0(Decls[rec.decl], Scn(rec), FTab) IN [s EXCEPT !.val = [o \in 1..Len(s.opts) |-> IF o <= Len(s.d.opts) THEN ZeroVal(s.opts[o]) ELSE <<>>],
                                               !.pos = [c \in 1..Len(s.d.cmds) |-> [i \in 1..Len(s.d.cmds[c].args) |->
                                                            IF s.d.cmds[c].args[i].slice \/ s.d.cmds[c].args[i].map THEN <<>> ELSE <<ZeroText(s.d.cmds[c].args[i].vtype)>>]]]

UserN(s) == Len(s.d.opts)
ValEq(kind, sv, ov) == IF kind = "map" THEN SeqToSet(sv) = SeqToSet(ov) /\ Len(sv) = Len(ov) ELSE sv = ov
ValuesEq(s, o) == Len(o.values) = UserN(s) /\ \A i \in 1..UserN(s) : ValEq(s.opts[i].kind, s.val[i], o.values[i])

\* all permutations of 1..n as sequences (n small)
RECURSIVE Perms(_)
Perms(X) == IF X = {} THEN {<<>>} ELSE UNION {{<<x>> \o p : p \in Perms(X \ {x})} : x \in X}

\* outcomes of an INI read over every order in which the sections may be applied
IniOutcomes(s, c, text) ==
  LET ini == ReadIni(text) IN
  \* intended: the sections are applied in file order.  The pinned code ranged over a Go map (switch IniSectionMapOrder):
  \* then any order may have been taken
  IF ini.unspec \/ ini.err # 0 \/ ~Defect("IniSectionMapOrder") THEN {IniParse(s, text, c.asDefaults, IdentityOrder(ini))}
  ELSE IF Len(ini.secs) <= 4 THEN {ApplyIni(s, ini, c.asDefaults, p) : p \in Perms(1..Len(ini.secs))}
  ELSE \* many sections: file order, every rotation of it, and every section on its own first (whichever section the map yields
       \* first decides which error is met first); enough to explain any first error, values are compared for the file order
       {ApplyIni(s, ini, c.asDefaults, p) : p \in {[k \in 1..Len(ini.secs) |-> ((k + r - 1) % Len(ini.secs)) + 1] : r \in 0..(Len(ini.secs) - 1)}}
       \cup {ApplyIni(s, ini, c.asDefaults, <<f>> \o SelectSeq(IdentityOrder(ini), LAMBDA k : k # f)) : f \in 1..Len(ini.secs)}

\* does the real observation of an ini call match this specification outcome
IniMatch(s2, co) == /\ co.errKind = s2.ierr.t
                    /\ s2.ierr.t = "IniError" => co.line = s2.ierr.line
                    /\ s2.ierr.t = "none" => ValuesEq(s2, co)
IniMatchFull(s2, co) == IniMatch(s2, co) /\ ValuesEq(s2, co)

ErrKindOfArgs(s2) == s2.err.t

\* one call: acc = [s, ok14, ok05, drift, grey, panics, iniCalls, errCalls, texts]
StepCall(rec, acc, k) ==
  LET c == rec.calls[k]
      co == rec.obs[k]
      s == acc.s
  IN IF co.panic THEN [acc EXCEPT !.panics = @ + 1, !.ok14 = FALSE, !.dead = TRUE]
     ELSE IF acc.dead THEN acc
     ELSE CASE c.op = "fresh" -> [acc EXCEPT !.s = Fresh(rec)]
       [] c.op = "ini" ->
            LET text == IF c.fromWrite > 0 THEN rec.obs[c.fromWrite].text ELSE c.text
                outs == IniOutcomes(s, c, text)
                m == {x \in outs : IniMatch(x, co)}
                pick == IF m # {} THEN CHOOSE x \in m : TRUE ELSE CHOOSE x \in outs : TRUE
                anyGrey == \E x \in outs : x.grey
            IN [acc EXCEPT !.s = pick, !.grey = @ \/ anyGrey,
                           !.ok14 = @ /\ (anyGrey \/ m # {}),
                           !.drift = @ \/ (~anyGrey /\ ~\E x \in outs : IniMatchFull(x, co)),
                           !.iniCalls = @ + 1, !.errCalls = @ + B(pick.ierr.t # "none"),
                           !.multi = @ \/ Cardinality(outs) > 1,
                           \* after a failed read the cells are only partly applied: follow the real code from here on
                           !.dead = pick.ierr.t # "none" \/ m = {}]
       [] c.op = "args" ->
            LET s2 == ParseArgsCall(s, c.argv)
                same == /\ co.errKind = (IF s2.err.t = "foreign" THEN co.errKind ELSE s2.err.t)
                        /\ (s2.err.t = "foreign" => co.errKind \in {"foreign", "foreign:exec", "foreign:handler"})
                        /\ s2.err.t = "none" => (ValuesEq(s2, co) /\ co.pos = s2.pos /\ co.retargs = s2.retargs)
            IN [acc EXCEPT !.s = s2, !.grey = @ \/ s2.grey, !.okArgs = @ /\ (s2.grey \/ same), !.dead = s2.err.t # "none" \/ ~same,
                           \* C06 across sources: a required option counts as supplied however it got its value (INI read, as-defaults read,
                           \* environment, default tag, an earlier parse) - ErrRequired exactly when the specification says so
                           !.okReq = @ /\ (s2.grey \/ ((s2.err.t = "ErrRequired") <=> (co.errKind = "ErrRequired")))]
       [] c.op = "write" ->
            LET lines == WriteIni(s, SeqToSet(c.iniOpts)) IN
            \* (compared as text: a value may hold a line break of its own)
            [acc EXCEPT !.drift = @ \/ JoinLines(lines) # co.text, !.writes = @ + 1]
       [] OTHER -> acc

Acc0(rec) == [s |-> SInit(rec), ok14 |-> TRUE, okArgs |-> TRUE, okReq |-> TRUE, drift |-> FALSE, grey |-> FALSE, panics |-> 0, iniCalls |-> 0, errCalls |-> 0,
              writes |-> 0, multi |-> FALSE, dead |-> FALSE]

RunSession(rec) == FoldLeft(LAMBDA acc, k : StepCall(rec, acc, k), Acc0(rec), [k \in 1..Len(rec.calls) |-> k])

\* --- C12: the round trip.  Options the writer may write: not callbacks, not hidden, not no-ini, in visible groups of visible commands
RECURSIVE CmdVisible(_, _)
CmdVisible(d, c) == IF c = 1 THEN TRUE ELSE ~d.cmds[c].hidden /\ CmdVisible(d, d.cmds[c].parent)
RoundTripOpts(d) == {o \in 1..Len(d.opts) : /\ ~(d.opts[o].kind \in {"func0", "func1"}) /\ ~d.opts[o].hidden /\ ~d.opts[o].noIni
                                            /\ ~d.groups[d.opts[o].group].hidden /\ CmdVisible(d, d.opts[o].cmd)}
WriteIdx(rec) == FirstIdx([k \in 1..Len(rec.calls) |-> k], LAMBDA k : rec.calls[k].op = "write")
\* map keys the key:value syntax can express: non-empty, no ':', no surrounding white space
KeyOK(k) == k # E /\ IndexOf(k, COLON) = 0 /\ TrimSpace(k) = k
InDom12(rec, d) ==
  LET w == WriteIdx(rec) IN
  /\ w > 0 /\ InSeq(rec.tags, "roundtrip") /\ ~rec.obs[w].panic /\ rec.obs[w].errKind # "setup"
  \* the parser wrote after successful calls only (a parse that stopped at an error leaves cells half applied - a cleared map
  \* whose entry was refused - which no file can express)
  /\ \A k \in 1..(w - 1) : rec.obs[k].errKind = "none"
  /\ \A o \in RoundTripOpts(d) : d.opts[o].kind = "map" => \A p \in 1..Len(rec.obs[w].values[o]) : KeyOK(rec.obs[w].values[o][p][1])
  \* no written option holds a value that its own choice list rejects (not reachable by parsing)
  /\ \A o \in RoundTripOpts(d) : (d.opts[o].choices # <<>> /\ d.opts[o].kind # "map") =>
         \A p \in 1..Len(rec.obs[w].values[o]) : InSeq(d.opts[o].choices, rec.obs[w].values[o][p])
J12(rec, d) ==
  LET w == WriteIdx(rec)
      last == rec.obs[Len(rec.obs)] IN
  InDom12(rec, d) =>
     /\ \A k \in 1..Len(rec.obs) : ~rec.obs[k].panic
     /\ \A k \in (w + 1)..Len(rec.obs) : rec.obs[k].errKind = "none"
     /\ \A o \in RoundTripOpts(d) : ValEq(d.opts[o].kind, rec.obs[w].values[o], last.values[o])

Judge(rec) ==
  LET r == RunSession(rec)
      d == Decls[rec.decl]
      crashed == rec.crash \/ rec.timeout
      tagged(t) == InSeq(rec.tags, t)
  IN [C14 |-> ~crashed /\ r.ok14,
      C05 |-> (tagged("sources") /\ ~crashed /\ ~r.grey) => (r.ok14 /\ r.okArgs),
      C13 |-> (tagged("equiv") /\ ~crashed /\ ~r.grey) => (r.ok14 /\ r.okArgs),
      C06 |-> (~crashed /\ ~r.grey) => r.okReq,
      C12 |-> ~crashed /\ J12(rec, d),
      C15 |-> rec.distinctObs = 1,
      DRIFT |-> crashed \/ r.grey \/ (~r.drift /\ r.okArgs /\ r.ok14),
      grey |-> B(r.grey), ini |-> r.iniCalls, inierr |-> r.errCalls, writes |-> r.writes, multi |-> B(r.multi),
      rt |-> B(InDom12(rec, d)), src |-> B(tagged("sources") /\ ~r.grey), eqv |-> B(tagged("equiv") /\ ~r.grey), rep |-> B(rec.runs > 1)]

StatKeys == {"grey", "ini", "inierr", "writes", "multi", "rt", "src", "eqv", "rep"}
\* One state per record.  The judging is done in an invariant, not in the action: TLC caches lazily evaluated
\* operator arguments and LET definitions only when it evaluates a state predicate; inside a next-state action every
\* use re-evaluates them, which turns the nested operators of the specification exponential on large records.
Init == l = 1 /\ TLCSet(1, [p \in Props |-> {}]) /\ TLCSet(2, [k \in StatKeys |-> 0]) /\ TLCSet(3, 0)
Next == l < Len(TraceRecs) /\ l' = l + 1
Spec == Init /\ [][Next]_l
JudgeRecord ==
  (l <= Len(TraceRecs)) =>
    LET j == Judge(TraceRecs[l]) IN
    /\ TLCSet(1, [p \in Props |-> IF j[p] THEN TLCGet(1)[p] ELSE TLCGet(1)[p] \cup {l}])
    /\ TLCSet(2, [k \in StatKeys |-> TLCGet(2)[k] + j[k]])
    /\ TLCSet(3, TLCGet(3) + 1)

Post == /\ PrintT(<<"VERIF-CONSUMED", TLCGet(3), Len(TraceRecs)>>)
        /\ PrintT(<<"VERIF-STAT", TLCGet(2)>>)
        /\ \A p \in Props : PrintT(<<"VERIF-BAD", p, TLCGet(1)[p]>>)
=============================================================================
