------------------------------- MODULE Quote -------------------------------
(***************************************************************************)
(* The subset of strconv.Quote / strconv.Unquote that go-flags relies on   *)
(* for option values, INI values and struct tags (double-quoted,           *)
(* interpreted string literals).                                           *)
(*   Unquote(t): [ok, unspec, v] as in Conv.  The escapes \\ \" \n \t \r   *)
(*   \a \b \f \v, \xHH, \uHHHH (not a surrogate) are specified (a lone    *)
(*   \xHH with HH >= 80 is one raw byte; two in a row are Unspec because   *)
(*   they may combine into one character); octal and \U are Unspec;        *)
(*   everything else that Go rejects is Rej.                                *)
(***************************************************************************)
EXTENDS Conv

HexVal(c) == IF IsDigit(c) THEN c - 48 ELSE IF c >= 97 /\ c <= 102 THEN c - 87 ELSE IF c >= 65 /\ c <= 70 THEN c - 55 ELSE 99

SimpleEsc(c) == CASE c = 110 -> 10 [] c = 116 -> 9 [] c = 114 -> 13 [] c = BACKSLASH -> BACKSLASH [] c = QUOTE -> QUOTE
                  [] c = 97 -> 7 [] c = 98 -> 8 [] c = 102 -> 12 [] c = 118 -> 11 [] OTHER -> -1

\* scan the inside of the literal (without the surrounding quotes): a character automaton, folded over the text
\* (a recursive scan overflows the stack on the multi-kilobyte values of the INI checks)
UnqStart == [mode |-> "plain", out |-> E, res |-> "", need |-> 0, got |-> 0, acc |-> 0, kind |-> "", hiEsc |-> FALSE]
UnqStep(a, c) ==
  IF a.res # "" THEN a
  ELSE IF a.mode = "plain" THEN
       IF c = QUOTE \/ c = NL THEN [a EXCEPT !.res = "rej"]                     \* bare quote inside, or newline
       ELSE IF c = BACKSLASH THEN [a EXCEPT !.mode = "esc"]
       ELSE [a EXCEPT !.out = Append(@, Sanitize(c)), !.hiEsc = FALSE]
  ELSE IF a.mode = "esc" THEN
       IF SimpleEsc(c) >= 0 THEN [a EXCEPT !.out = Append(@, SimpleEsc(c)), !.mode = "plain", !.hiEsc = FALSE]
       ELSE IF c = 120 THEN [a EXCEPT !.mode = "hex", !.need = 2, !.got = 0, !.acc = 0, !.kind = "x"]         \* \xHH
       ELSE IF c = 117 THEN [a EXCEPT !.mode = "hex", !.need = 4, !.got = 0, !.acc = 0, !.kind = "u"]         \* \uHHHH
       ELSE IF c = 85 \/ (c >= 48 /\ c <= 55) THEN [a EXCEPT !.res = "unspec"]                               \* \U........ and octal
       ELSE [a EXCEPT !.res = "rej"]                                                                       \* includes \' which is illegal inside "..."
  ELSE \* hex digits of \x or \u
       IF HexVal(c) > 15 THEN [a EXCEPT !.res = "rej"]
       ELSE LET v == a.acc * 16 + HexVal(c) IN
            IF a.got + 1 < a.need THEN [a EXCEPT !.acc = v, !.got = @ + 1]
            ELSE IF a.kind = "x" THEN
                 \* \xHH with HH >= 80 is one raw byte; two of them in a row could combine into a character: no verdict then
                 (IF v >= 128 THEN (IF a.hiEsc THEN [a EXCEPT !.res = "unspec"] ELSE [a EXCEPT !.out = Append(@, BADBYTE + v), !.mode = "plain", !.hiEsc = TRUE])
                  ELSE [a EXCEPT !.out = Append(@, v), !.mode = "plain", !.hiEsc = FALSE])
            ELSE IF v >= 55296 /\ v <= 57343 THEN [a EXCEPT !.res = "rej"]
            ELSE [a EXCEPT !.out = Append(@, v), !.mode = "plain", !.hiEsc = FALSE]
UnqBody(in, ignored) ==
  LET r == FoldLeft(UnqStep, UnqStart, in) IN
  IF r.res = "unspec" THEN Unspec
  ELSE IF r.res = "rej" \/ r.mode # "plain" THEN Rej               \* an escape cut short by the end of the literal
  ELSE Okv(r.out)

\* strconv.Unquote on a text that starts with a double quote
Unquote(t) ==
  IF Len(t) < 2 \/ t[1] # QUOTE \/ t[Len(t)] # QUOTE THEN Rej
  ELSE UnqBody(SubSeq(t, 2, Len(t) - 1), E)

\* unquoteIfPossible (convert.go:355): only texts that begin with '"' are touched
UnquoteIfPossible(t) == IF t # E /\ t[1] = QUOTE THEN Unquote(t) ELSE Okv(t)

---------------------------------------------------------------------------
(* strconv.IsPrint approximated: ASCII exactly; beyond ASCII a fixed table  *)
(* of samples used by the generators is classified, the rest is Unspec in   *)
(* callers that care.                                                       *)
IsPrintAscii(c) == c >= 32 /\ c <= 126
NonPrintSamples == {133, 160, 173, 8232, 8233, 65279, 12288}   \* NEL, NBSP, SHY, LS, PS, BOM, ideographic space
PrintSamples == {233, 228, 252, 19990, 30028, 955, 128512, 8364, 65533}   \* e-acute, a-uml, u-uml, CJK, lambda, emoji, euro, U+FFFD
IsPrintKnown(c) == c < 128 \/ c \in NonPrintSamples \/ c \in PrintSamples \/ c >= BADBYTE
\* go-flags' isPrint ranges over the string: a byte that is not valid UTF-8 arrives as U+FFFD, which is printable
\* Beyond ASCII: the C1 controls, NBSP, the soft hyphen and the listed separators / format characters are not
\* printable; every other character the generators use is (letters, CJK, symbols, emoji, U+FFFD).
IsPrintC(c) == IF c < 128 THEN IsPrintAscii(c) ELSE IF c >= BADBYTE THEN TRUE
               ELSE IF c <= 160 \/ c \in NonPrintSamples \/ (c >= 8192 /\ c <= 8207) \/ (c >= 8232 /\ c <= 8239) \/ c = 8287 THEN FALSE ELSE TRUE
IsPrintS(s) == \A i \in 1..Len(s) : IsPrintC(s[i])
IsPrintKnownS(s) == \A i \in 1..Len(s) : IsPrintKnown(s[i])

HexDigit(n) == IF n < 10 THEN 48 + n ELSE 87 + n
\* strconv.Quote for the characters above
QuoteC(c) ==
  CASE c = QUOTE -> <<BACKSLASH, QUOTE>>
    [] c = BACKSLASH -> <<BACKSLASH, BACKSLASH>>
    [] c = 7 -> <<BACKSLASH, 97>> [] c = 8 -> <<BACKSLASH, 98>> [] c = 12 -> <<BACKSLASH, 102>>
    [] c = 10 -> <<BACKSLASH, 110>> [] c = 13 -> <<BACKSLASH, 114>> [] c = 9 -> <<BACKSLASH, 116>> [] c = 11 -> <<BACKSLASH, 118>>
    [] c >= BADBYTE -> <<BACKSLASH, 120, HexDigit((c - BADBYTE) \div 16), HexDigit((c - BADBYTE) % 16)>>
    [] c < 32 \/ c = 127 -> <<BACKSLASH, 120, HexDigit(c \div 16), HexDigit(c % 16)>>
    [] c < 128 -> <<c>>
    [] IsPrintC(c) -> <<c>>
    [] c < 65536 -> <<BACKSLASH, 117, HexDigit(c \div 4096), HexDigit((c \div 256) % 16), HexDigit((c \div 16) % 16), HexDigit(c % 16)>>
    [] OTHER -> <<BACKSLASH, 85>>        \* not used by the generators
QuoteS(s) == <<QUOTE>> \o FoldLeft(LAMBDA acc, c : acc \o QuoteC(c), E, s) \o <<QUOTE>>
=============================================================================
