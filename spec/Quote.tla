------------------------------- MODULE Quote -------------------------------
(***************************************************************************)
(* The subset of strconv.Quote / strconv.Unquote that go-flags relies on   *)
(* for option values, INI values and struct tags (double-quoted,           *)
(* interpreted string literals).                                           *)
(*   Unquote(t): [ok, unspec, v] as in Conv.  The escapes \\ \" \n \t \r   *)
(*   \a \b \f \v, \xHH (HH < 80 hex), \uHHHH (not a surrogate) are        *)
(*   specified; octal, \U and \x >= 80 are Unspec; everything else that     *)
(*   Go rejects is Rej.                                                     *)
(***************************************************************************)
EXTENDS Conv

HexVal(c) == IF IsDigit(c) THEN c - 48 ELSE IF c >= 97 /\ c <= 102 THEN c - 87 ELSE IF c >= 65 /\ c <= 70 THEN c - 55 ELSE 99

SimpleEsc(c) == CASE c = 110 -> 10 [] c = 116 -> 9 [] c = 114 -> 13 [] c = BACKSLASH -> BACKSLASH [] c = QUOTE -> QUOTE
                  [] c = 97 -> 7 [] c = 98 -> 8 [] c = 102 -> 12 [] c = 118 -> 11 [] OTHER -> -1

\* scan the inside of the literal (without the surrounding quotes)
RECURSIVE UnqBody(_, _)
UnqBody(in, acc) ==
  IF in = E THEN Okv(acc)
  ELSE LET c == in[1] IN
    IF c = QUOTE \/ c = NL THEN Rej                          \* bare quote inside, or newline
    ELSE IF c # BACKSLASH THEN UnqBody(Tail(in), Append(acc, Sanitize(c)))
    ELSE IF Len(in) < 2 THEN Rej
    ELSE LET e == in[2] IN
      IF SimpleEsc(e) >= 0 THEN UnqBody(Drop(in, 2), Append(acc, SimpleEsc(e)))
      ELSE IF e = 120 THEN                                    \* \xHH
        IF Len(in) < 4 \/ HexVal(in[3]) > 15 \/ HexVal(in[4]) > 15 THEN Rej
        ELSE IF HexVal(in[3]) >= 8 THEN Unspec
        ELSE UnqBody(Drop(in, 4), Append(acc, HexVal(in[3]) * 16 + HexVal(in[4])))
      ELSE IF e = 117 THEN                                    \* \uHHHH
        IF Len(in) < 6 \/ \E k \in 3..6 : HexVal(in[k]) > 15 THEN Rej
        ELSE LET v == ((HexVal(in[3]) * 16 + HexVal(in[4])) * 16 + HexVal(in[5])) * 16 + HexVal(in[6]) IN
             IF v >= 55296 /\ v <= 57343 THEN Rej ELSE UnqBody(Drop(in, 6), Append(acc, v))
      ELSE IF e = 85 \/ (e >= 48 /\ e <= 55) THEN Unspec      \* \U........ and octal
      ELSE Rej                                                \* includes \' which is illegal inside "..."

\* strconv.Unquote on a text that starts with a double quote
Unquote(t) ==
  IF Len(t) < 2 \/ t[1] # QUOTE \/ t[Len(t)] # QUOTE THEN Rej
  ELSE UnqBody(SubSeq(t, 2, Len(t) - 1), E)

\* unquoteIfPossible (convert.go:355): only texts that begin with '"' are touched
UnquoteIfPossible(t) == IF t # E /\ t[1] = QUOTE THEN Unquote(t) ELSE Okv(t)

---------------------------------------------------------------------------
(* strconv.IsPrint approximated: ASCII exactly; beyond ASCII a fixed table  *)
(* of samples used by the generators is classified, the rest is Unspec in   *)
(* callers that care.                                                       *)
IsPrintAscii(c) == c >= 32 /\ c <= 126
NonPrintSamples == {133, 160, 173, 8232, 8233, 65279, 12288}   \* NEL, NBSP, SHY, LS, PS, BOM, ideographic space
PrintSamples == {233, 228, 252, 19990, 30028, 955, 128512, 8364, 65533}   \* e-acute, a-uml, u-uml, CJK, lambda, emoji, euro, U+FFFD
IsPrintKnown(c) == c < 128 \/ c \in NonPrintSamples \/ c \in PrintSamples \/ c >= BADBYTE
\* go-flags' isPrint ranges over the string: a byte that is not valid UTF-8 arrives as U+FFFD, which is printable
IsPrintC(c) == IF c < 128 THEN IsPrintAscii(c) ELSE IF c >= BADBYTE THEN TRUE ELSE c \in PrintSamples
IsPrintS(s) == \A i \in 1..Len(s) : IsPrintC(s[i])
IsPrintKnownS(s) == \A i \in 1..Len(s) : IsPrintKnown(s[i])

HexDigit(n) == IF n < 10 THEN 48 + n ELSE 87 + n
\* strconv.Quote for the characters above
QuoteC(c) ==
  CASE c = QUOTE -> <<BACKSLASH, QUOTE>>
    [] c = BACKSLASH -> <<BACKSLASH, BACKSLASH>>
    [] c = 7 -> <<BACKSLASH, 97>> [] c = 8 -> <<BACKSLASH, 98>> [] c = 12 -> <<BACKSLASH, 102>>
    [] c = 10 -> <<BACKSLASH, 110>> [] c = 13 -> <<BACKSLASH, 114>> [] c = 9 -> <<BACKSLASH, 116>> [] c = 11 -> <<BACKSLASH, 118>>
    [] c >= BADBYTE -> <<BACKSLASH, 120, HexDigit((c - BADBYTE) \div 16), HexDigit((c - BADBYTE) % 16)>>
    [] c < 32 \/ c = 127 -> <<BACKSLASH, 120, HexDigit(c \div 16), HexDigit(c % 16)>>
    [] c < 128 -> <<c>>
    [] IsPrintC(c) -> <<c>>
    [] c < 65536 -> <<BACKSLASH, 117, HexDigit(c \div 4096), HexDigit((c \div 256) % 16), HexDigit((c \div 16) % 16), HexDigit(c % 16)>>
    [] OTHER -> <<BACKSLASH, 85>>        \* not used by the generators
QuoteS(s) == <<QUOTE>> \o FoldLeft(LAMBDA acc, c : acc \o QuoteC(c), E, s) \o <<QUOTE>>
=============================================================================
