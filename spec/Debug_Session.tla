--------------------------- MODULE Debug_Session ---------------------------
(* Prints, per call of every session of trace.ndjson, what the specification prescribes (replay / diagnosis). *)
EXTENDS Trace_Session
ShowS(s) == [ierr |-> s.ierr, err |-> s.err.t, val |-> [i \in 1..Len(s.d.opts) |-> s.val[i]], grey |-> s.grey, retargs |-> s.retargs]
RECURSIVE Walk(_, _, _, _)
Walk(rec, acc, k, out) ==
  IF k > Len(rec.calls) THEN out
  ELSE LET a2 == StepCall(rec, acc, k) IN
       Walk(rec, a2, k + 1, Append(out, [call |-> k, spec |-> ShowS(a2.s), ok14 |-> a2.ok14, okArgs |-> a2.okArgs, drift |-> a2.drift, dead |-> a2.dead,
                                         lines |-> IF rec.calls[k].op = "write" THEN WriteIni(acc.s, SeqToSet(rec.calls[k].iniOpts)) ELSE <<>>]))
DInit == l = 1
DNext == /\ l <= Len(TraceRecs) /\ l' = l + 1
         /\ PrintT(<<"SPEC", l, ToJson(Walk(TraceRecs[l], Acc0(TraceRecs[l]), 1, <<>>))>>)
         /\ PrintT(<<"JUDGE", l, Judge(TraceRecs[l])>>)
DSpec == DInit /\ [][DNext]_l
=============================================================================
