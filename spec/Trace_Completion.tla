-------------------------- MODULE Trace_Completion --------------------------
(* Trace validation for C18: typed words + partial word, the items the real completion offered, and what the real
   parser said to each offered name. *)
EXTENDS Completion, FTab, Json

VARIABLE l
TraceRecs == ndJsonDeserialize("trace.ndjson")
Decls == ndJsonDeserialize("decls.ndjson")
Props == {"C18", "C15", "C09", "DRIFT"}
B(x) == IF x THEN 1 ELSE 0

Scn(rec) == [decl |-> rec.decl, popts |-> rec.popts, handler |-> "none", cmdHandler |-> FALSE, execErr |-> FALSE, env |-> <<>>, argv |-> <<>>,
             completion |-> E, prelude |-> <<>>,
             \* groups added to the parser after an earlier completion of the same words come after the built-in help group
             hasPrelude |-> ("lateGroup" \in DOMAIN rec /\ rec.lateGroup), lateGroup |-> ("lateGroup" \in DOMAIN rec /\ rec.lateGroup)]
\* the parser state before any word: the entry step (help options added) already taken
Start(rec) == Step(S0(Decls[rec.decl], Scn(rec), FTab))

Judge(rec) ==
  LET o == rec.obs
      s0 == Start(rec)
      ws == IF rec.words = <<>> THEN <<E>> ELSE rec.words
      ctx == Context(s0, ws)
      decl == DeclItems(s0, ws)
      walk == WalkItems(s0, ws)
      last == ws[Len(ws)]
      \* grey: partial words that start with '-' after a plain argument under PassAfterNonOption or after the terminator (see Context),
      \* and a complete single-character short flag (the code echoes it back)
      echo == Len(last) >= 2 /\ last[1] = DASH /\ last[2] # DASH /\ ~(Len(last) >= 3 /\ last[3] = EQ)
              /\ LET so == LookupShort(ctx.s, Sanitize(last[2])) IN so = 0 \/ ~CanArgument(ctx.s.opts[so])
      indom == ctx.valid /\ ~ctx.grey /\ ~echo
      crashed == o.panic \/ o.timeout
      names == {i \in 1..Len(o.items) : o.accept[i] # "skip"}
  IN [C18 |-> ~crashed /\ (indom => (/\ o.called
                                      /\ o.items = decl                                            \* exactly the valid continuations, sorted
                                      /\ \A i \in names : o.accept[i] \notin {"ErrUnknownFlag", "ErrUnknownCommand", "panic"})),
      C09 |-> crashed \/ (~o.executed /\ o.retNil),                                               \* in completion mode nothing is executed
      C15 |-> crashed \/ o.distinct = 1,
      DRIFT |-> crashed \/ o.items = walk,
      valid |-> B(indom), nonempty |-> B(indom /\ decl # <<>>), values |-> B(indom /\ \E i \in 1..Len(o.accept) : o.accept[i] = "skip"),
      grey |-> B(ctx.grey), deep |-> B(indom /\ ctx.s.cmd # 1), rep |-> B(o.repeat > 1)]

StatKeys == {"valid", "nonempty", "values", "grey", "deep", "rep"}
Init == l = 1 /\ TLCSet(1, [p \in Props |-> {}]) /\ TLCSet(2, [k \in StatKeys |-> 0]) /\ TLCSet(3, 0)
Next == l < Len(TraceRecs) /\ l' = l + 1
Spec == Init /\ [][Next]_l
JudgeRecord ==
  (l <= Len(TraceRecs)) =>
    LET j == Judge(TraceRecs[l]) IN
    /\ TLCSet(1, [p \in Props |-> IF j[p] THEN TLCGet(1)[p] ELSE TLCGet(1)[p] \cup {l}])
    /\ TLCSet(2, [k \in StatKeys |-> TLCGet(2)[k] + j[k]])
    /\ TLCSet(3, TLCGet(3) + 1)
Post == /\ PrintT(<<"VERIF-CONSUMED", TLCGet(3), Len(TraceRecs)>>)
        /\ PrintT(<<"VERIF-STAT", TLCGet(2)>>)
        /\ \A p \in Props : PrintT(<<"VERIF-BAD", p, TLCGet(1)[p]>>)
=============================================================================
