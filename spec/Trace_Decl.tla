----------------------------- MODULE Trace_Decl -----------------------------
(* Trace validation for C19: raw tag texts of a declaration and the public model (or setup error) the real library produced. *)
EXTENDS Decl, Json
VARIABLE l
TraceRecs == ndJsonDeserialize("trace.ndjson")
Props == {"C19", "C15", "DRIFT"}
B(x) == IF x THEN 1 ELSE 0

OptEq(so, oo) ==
  /\ oo.field = so.field /\ oo.short = so.short /\ oo.long = so.long /\ oo.nsLong = so.nsLong /\ oo.desc = so.desc
  /\ oo.defaults = so.defaults /\ oo.optvals = so.optvals /\ oo.valueName = so.valueName /\ oo.mask = so.mask
  /\ oo.optional = so.optional /\ oo.required = so.required /\ oo.choices = so.choices /\ oo.hidden = so.hidden
  /\ oo.env = so.env /\ oo.envKey = so.envKey /\ oo.envDelim = so.envDelim
OptsEq(ss, os) == Len(ss) = Len(os) /\ \A i \in 1..Len(ss) : OptEq(ss[i], os[i])

GroupsEq(mg, og) ==
  /\ Len(mg) = Len(og)
  /\ \A i \in 1..Len(mg) : /\ og[i].desc = mg[i].desc /\ og[i].longDesc = mg[i].longDesc
                            /\ og[i].ns = mg[i].ns /\ og[i].envNs = mg[i].envNs /\ og[i].hidden = mg[i].hidden
ModelEq(m, o) ==
  /\ OptsEq(m.opts, o.opts)
  /\ GroupsEq(m.groups, o.groups)
  /\ Len(m.cmds) = Len(o.cmds)
  /\ \A i \in 1..Len(m.cmds) : /\ o.cmds[i].name = m.cmds[i].name /\ o.cmds[i].desc = m.cmds[i].desc /\ o.cmds[i].longDesc = m.cmds[i].longDesc
                                /\ o.cmds[i].subOpt = m.cmds[i].subOpt /\ o.cmds[i].aliases = m.cmds[i].aliases /\ o.cmds[i].hidden = m.cmds[i].hidden
                                /\ OptsEq(m.cmds[i].opts, o.cmds[i].opts) /\ GroupsEq(m.cmds[i].groups, o.cmds[i].groups)
                                /\ o.cmds[i].nsub = m.cmds[i].nsub /\ o.cmds[i].nargs = m.cmds[i].nargs
  /\ Len(m.args) = Len(o.args)
  /\ \A i \in 1..Len(m.args) : o.args[i].name = m.args[i].name /\ o.args[i].desc = m.args[i].desc /\ o.args[i].req = m.args[i].req /\ o.args[i].max = m.args[i].max
  /\ o.argsReq = m.argsReq

\* Look-ups through the public API (command.go:104-138, group.go:110-136): an option is found by its long name with
\* namespaces or by its short name, in the asked command's own tree first (groups in pre-order, options in order) and
\* then in the parser's; Find gives the FIRST top-level command whose name or alias is the word (the parser's look-up
\* tables, filled in order, give the last one - ArgParse.tla Resolve).
FirstWith(opts, P(_)) == LET k == FirstIdx(opts, P) IN IF k = 0 THEN E ELSE opts[k].field
FindExpected(m, q) ==
  IF q.kind = "cmd" THEN LET k == FirstIdx(m.cmds, LAMBDA c : c.name = q.name \/ InSeq(c.aliases, q.name)) IN IF k = 0 THEN E ELSE m.cmds[k].name
  ELSE LET P(o) == IF q.kind = "long" THEN o.long # E /\ o.nsLong = q.name ELSE o.short # 0 /\ <<o.short>> = q.name
           own == IF q.cmd = 0 THEN E ELSE FirstWith(m.cmds[q.cmd].opts, P) IN
       IF own # E THEN own ELSE FirstWith(m.opts, P)
FindsOK(m, o) == \A i \in 1..Len(o.finds) : o.finds[i].field = FindExpected(m, o.finds[i])

Judge(rec) ==
  LET o == rec.obs
      b == BuildModel(rec.fields)
      crashed == o.panic \/ o.timeout
      grey == b.grey \/ b.err = "unspec"
      good == ~crashed /\ (grey \/ (o.err = b.err /\ (b.err = "none" => ModelEq(b.model, o))))
      \* fidelity only: the look-up API agrees with the model that was read back
      finds == crashed \/ grey \/ b.err # "none" \/ ~("finds" \in DOMAIN o) \/ FindsOK(b.model, o)
  IN [C19 |-> good, DRIFT |-> good /\ finds,
      C15 |-> crashed \/ ~("distinct" \in DOMAIN o) \/ o.distinct <= 1,          \* repeated on fresh parsers: the same model or the same error, message included
      grey |-> B(grey), ok |-> B(~grey /\ b.err = "none"), errtag |-> B(b.err = "ErrTag"), errdup |-> B(b.err = "ErrDuplicatedFlag"),
      errshort |-> B(b.err = "ErrShortNameTooLong"), errbool |-> B(b.err = "ErrInvalidTag")]

StatKeys == {"grey", "ok", "errtag", "errdup", "errshort", "errbool"}
Init == l = 1 /\ TLCSet(1, [p \in Props |-> {}]) /\ TLCSet(2, [k \in StatKeys |-> 0]) /\ TLCSet(3, 0)
Next == l < Len(TraceRecs) /\ l' = l + 1
Spec == Init /\ [][Next]_l
JudgeRecord ==
  (l <= Len(TraceRecs)) =>
    LET j == Judge(TraceRecs[l]) IN
    /\ TLCSet(1, [p \in Props |-> IF j[p] THEN TLCGet(1)[p] ELSE TLCGet(1)[p] \cup {l}])
    /\ TLCSet(2, [k \in StatKeys |-> TLCGet(2)[k] + j[k]])
    /\ TLCSet(3, TLCGet(3) + 1)
Post == /\ PrintT(<<"VERIF-CONSUMED", TLCGet(3), Len(TraceRecs)>>)
        /\ PrintT(<<"VERIF-STAT", TLCGet(2)>>)
        /\ \A p \in Props : PrintT(<<"VERIF-BAD", p, TLCGet(1)[p]>>)
=============================================================================
