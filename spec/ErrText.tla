------------------------------- MODULE ErrText -------------------------------
(***************************************************************************)
(* The message text of every *flags.Error that ParseArgs builds itself     *)
(* (parser.go:385-480 checkRequired, 484-524 estimateCommand, 526-593      *)
(* parseOption / marshalError, 603-650 unknown flags; option.go:255-276    *)
(* choices), as a function of the final state of the specification.        *)
(* MsgOf gives [known, exact, text]: exact = the whole message, otherwise   *)
(* text is the prefix up to the text of a foreign (strconv, Unmarshaler)   *)
(* error, which the specification does not describe.                       *)
(* Generated literal pieces: tools/mkerrtext.py.  Fidelity only: the       *)
(* verdicts of C04 / C06 / C07 / C11 / C20 are taken from the structured    *)
(* projection of the message (type, option, names, word), never from the   *)
(* wording.                                                                *)
(***************************************************************************)
EXTENDS ArgParse
CL == INSTANCE Closest

tUnknownFlag == <<117, 110, 107, 110, 111, 119, 110, 32, 102, 108, 97, 103, 32, 96>>      \* unknown flag `
tApos == <<39>>      \* '
tBq == <<96>>      \* `
tBoolFlag == <<98, 111, 111, 108, 32, 102, 108, 97, 103, 32, 96>>      \* bool flag `
tCannotArg == <<39, 32, 99, 97, 110, 110, 111, 116, 32, 104, 97, 118, 101, 32, 97, 110, 32, 97, 114, 103, 117, 109, 101, 110, 116>>      \* ' cannot have an argument
tExpectedArg == <<101, 120, 112, 101, 99, 116, 101, 100, 32, 97, 114, 103, 117, 109, 101, 110, 116, 32, 102, 111, 114, 32, 102, 108, 97, 103, 32, 96>>      \* expected argument for flag `
tGotOption == <<39, 44, 32, 98, 117, 116, 32, 103, 111, 116, 32, 111, 112, 116, 105, 111, 110, 32, 96>>      \* ', but got option `
tGotDD == <<39, 44, 32, 98, 117, 116, 32, 103, 111, 116, 32, 100, 111, 117, 98, 108, 101, 32, 100, 97, 115, 104, 32, 96, 45, 45, 39>>      \* ', but got double dash `--'
tVVRefused == <<118, 118, 58, 32, 114, 101, 102, 117, 115, 101, 100, 32, 96>>      \* vv: refused `
tInvalidValue == <<73, 110, 118, 97, 108, 105, 100, 32, 118, 97, 108, 117, 101, 32, 96>>      \* Invalid value `
tForOption == <<39, 32, 102, 111, 114, 32, 111, 112, 116, 105, 111, 110, 32, 96>>      \* ' for option `
tAllowed == <<39, 46, 32, 65, 108, 108, 111, 119, 101, 100, 32, 118, 97, 108, 117, 101, 115, 32, 97, 114, 101, 58, 32>>      \* '. Allowed values are: 
tOr == <<32, 111, 114, 32>>      \*  or 
tAnd == <<32, 97, 110, 100, 32>>      \*  and 
tComma == <<44, 32>>      \* , 
tReqFlag == <<116, 104, 101, 32, 114, 101, 113, 117, 105, 114, 101, 100, 32, 102, 108, 97, 103, 32>>      \* the required flag 
tReqFlags == <<116, 104, 101, 32, 114, 101, 113, 117, 105, 114, 101, 100, 32, 102, 108, 97, 103, 115, 32>>      \* the required flags 
tNotSpecified1 == <<32, 119, 97, 115, 32, 110, 111, 116, 32, 115, 112, 101, 99, 105, 102, 105, 101, 100>>      \*  was not specified
tNotSpecifiedN == <<32, 119, 101, 114, 101, 32, 110, 111, 116, 32, 115, 112, 101, 99, 105, 102, 105, 101, 100>>      \*  were not specified
tReqArg == <<116, 104, 101, 32, 114, 101, 113, 117, 105, 114, 101, 100, 32, 97, 114, 103, 117, 109, 101, 110, 116, 32>>      \* the required argument 
tReqArgs == <<116, 104, 101, 32, 114, 101, 113, 117, 105, 114, 101, 100, 32, 97, 114, 103, 117, 109, 101, 110, 116, 115, 32>>      \* the required arguments 
tNotProvided1 == <<32, 119, 97, 115, 32, 110, 111, 116, 32, 112, 114, 111, 118, 105, 100, 101, 100>>      \*  was not provided
tNotProvidedN == <<32, 119, 101, 114, 101, 32, 110, 111, 116, 32, 112, 114, 111, 118, 105, 100, 101, 100>>      \*  were not provided
tAtLeast == <<32, 40, 97, 116, 32, 108, 101, 97, 115, 116, 32>>      \*  (at least 
tAtMost == <<32, 40, 97, 116, 32, 109, 111, 115, 116, 32>>      \*  (at most 
tZeroArgs == <<32, 40, 122, 101, 114, 111, 32, 97, 114, 103, 117, 109, 101, 110, 116, 115, 41, 96>>      \*  (zero arguments)`
tArgument == <<32, 97, 114, 103, 117, 109, 101, 110, 116, 41, 96>>      \*  argument)`
tArgsGotOnly == <<32, 97, 114, 103, 117, 109, 101, 110, 116, 115, 44, 32, 98, 117, 116, 32, 103, 111, 116, 32, 111, 110, 108, 121, 32>>      \*  arguments, but got only 
tArgsGot == <<32, 97, 114, 103, 117, 109, 101, 110, 116, 115, 44, 32, 98, 117, 116, 32, 103, 111, 116, 32>>      \*  arguments, but got 
tCloseParBq == <<41, 96>>      \* )`
tInvalidArg == <<105, 110, 118, 97, 108, 105, 100, 32, 97, 114, 103, 117, 109, 101, 110, 116, 32, 102, 111, 114, 32, 102, 108, 97, 103, 32, 96>>      \* invalid argument for flag `
tExpected == <<39, 32, 40, 101, 120, 112, 101, 99, 116, 101, 100, 32>>      \* ' (expected 
tCloseColon == <<41, 58, 32>>      \* ): 
tAposColon == <<39, 58, 32>>      \* ': 
tUnknownCmd == <<85, 110, 107, 110, 111, 119, 110, 32, 99, 111, 109, 109, 97, 110, 100, 32, 96>>      \* Unknown command `
tDidYouMean == <<39, 44, 32, 100, 105, 100, 32, 121, 111, 117, 32, 109, 101, 97, 110, 32, 96>>      \* ', did you mean `
tAposQ == <<39, 63>>      \* '?
tYouShouldUse == <<39, 46, 32, 89, 111, 117, 32, 115, 104, 111, 117, 108, 100, 32, 117, 115, 101, 32, 116, 104, 101, 32>>      \* '. You should use the 
tCommand == <<32, 99, 111, 109, 109, 97, 110, 100>>      \*  command
tPleaseOneOfU == <<39, 46, 32, 80, 108, 101, 97, 115, 101, 32, 115, 112, 101, 99, 105, 102, 121, 32, 111, 110, 101, 32, 99, 111, 109, 109, 97, 110, 100, 32, 111, 102, 58, 32>>      \* '. Please specify one command of: 
tPleaseThe == <<80, 108, 101, 97, 115, 101, 32, 115, 112, 101, 99, 105, 102, 121, 32, 116, 104, 101, 32>>      \* Please specify the 
tPleaseOneOf == <<80, 108, 101, 97, 115, 101, 32, 115, 112, 101, 99, 105, 102, 121, 32, 111, 110, 101, 32, 99, 111, 109, 109, 97, 110, 100, 32, 111, 102, 58, 32>>      \* Please specify one command of: 

TypeName(vt) == CASE vt = "string" -> <<115, 116, 114, 105, 110, 103>>
                 [] vt = "bool" -> <<98, 111, 111, 108>>
                 [] vt = "int" -> <<105, 110, 116>>
                 [] vt = "int8" -> <<105, 110, 116, 56>>
                 [] vt = "int16" -> <<105, 110, 116, 49, 54>>
                 [] vt = "int32" -> <<105, 110, 116, 51, 50>>
                 [] vt = "int64" -> <<105, 110, 116, 54, 52>>
                 [] vt = "uint" -> <<117, 105, 110, 116>>
                 [] vt = "uint8" -> <<117, 105, 110, 116, 56>>
                 [] vt = "uint16" -> <<117, 105, 110, 116, 49, 54>>
                 [] vt = "uint32" -> <<117, 105, 110, 116, 51, 50>>
                 [] vt = "uint64" -> <<117, 105, 110, 116, 54, 52>>
                 [] vt = "float32" -> <<102, 108, 111, 97, 116, 51, 50>>
                 [] vt = "float64" -> <<102, 108, 111, 97, 116, 54, 52>>
                 [] vt = "duration" -> <<116, 105, 109, 101, 46, 68, 117, 114, 97, 116, 105, 111, 110>>
                 [] vt = "um" -> <<109, 97, 105, 110, 46, 85, 77>>
                 [] vt = "us" -> <<109, 97, 105, 110, 46, 85, 83>>
                 [] vt = "tb" -> <<109, 97, 105, 110, 46, 84, 66>>
                 [] vt = "vv" -> <<109, 97, 105, 110, 46, 86, 86>>
                 [] vt = "cc" -> <<109, 97, 105, 110, 46, 67, 67>>
                 [] vt = "filename" -> <<102, 108, 97, 103, 115, 46, 70, 105, 108, 101, 110, 97, 109, 101>>
                 [] OTHER -> E

\* reflect.Type.String() of the option's field; E when the message carries no "(expected ...)" clause (callbacks) or the type is not tabulated
FieldTypeName(od) ==
  LET el == TypeName(IF od.validator THEN "vv" ELSE od.vtype) IN
  CASE od.kind = "flag" -> TypeName("bool")
    [] od.kind = "counter" -> <<91, 93>> \o TypeName("bool")
    [] od.kind = "ptrflag" -> <<42>> \o TypeName("bool")
    [] od.kind = "scalar" -> el
    [] od.kind = "slice" -> <<91, 93>> \o el
    [] od.kind = "sliceptr" -> <<91, 93, 42>> \o el
    [] od.kind = "ptr" -> <<42>> \o el
    [] od.kind = "map" -> <<109, 97, 112, 91>> \o TypeName(od.ktype) \o <<93>> \o el
    [] OTHER -> E

RECURSIVE NatText(_)
NatText(n) == IF n < 10 THEN <<48 + n>> ELSE NatText(n \div 10) \o <<48 + (n % 10)>>

\* "a, b and c" / "a, b or c"
ListWith(items, last) == IF Len(items) = 1 THEN items[1]
                         ELSE Join(SubSeq(items, 1, Len(items) - 1), tComma) \o last \o items[Len(items)]

Known(t) == [known |-> TRUE, exact |-> TRUE, text |-> t]
KnownPrefix(t) == [known |-> TRUE, exact |-> FALSE, text |-> t]
Unknown == [known |-> FALSE, exact |-> FALSE, text |-> E]

\* ErrRequired (checkRequired): missing options as `-s, --long', sorted as texts; otherwise the unmet positionals in declaration order
RequiredText(f) ==
  LET miss == MissingOpts(f)
      unmet == UnmetArgs(f) IN
  IF miss # <<>> THEN
       LET names == SortStrs([i \in 1..Len(miss) |-> tBq \o OptString(f.d, f.opts[miss[i]]) \o tApos]) IN
       IF Len(names) = 1 THEN tReqFlag \o names[1] \o tNotSpecified1
       ELSE tReqFlags \o ListWith(names, tAnd) \o tNotSpecifiedN
  ELSE LET item(h) ==
             LET ad == f.d.cmds[h.c].args[h.i]
                 n == Len(f.pos[h.c][h.i]) IN
             IF ~ad.slice THEN tBq \o ad.name \o tBq
             ELSE IF n < ad.req THEN
                  tBq \o ad.name \o tAtLeast \o NatText(ad.req) \o (IF ad.req > 1 THEN tArgsGotOnly \o NatText(n) \o tCloseParBq ELSE tArgument)
             ELSE IF ad.reqMax = 0 THEN tBq \o ad.name \o tZeroArgs
             ELSE tBq \o ad.name \o tAtMost \o NatText(ad.reqMax) \o (IF ad.reqMax > 1 THEN tArgsGot \o NatText(n) \o tCloseParBq ELSE tArgument)
           names == [i \in 1..Len(unmet) |-> item(unmet[i])] IN
       IF Len(names) = 1 THEN tReqArg \o names[1] \o tNotProvided1
       ELSE tReqArgs \o ListWith(names, tAnd) \o tNotProvidedN

\* the visible sub-commands of the innermost command, as the diagnosis sees them
VisibleSubNames(f) == LET ks == SelectSeq([k \in 1..Len(f.d.cmds) |-> k], LAMBDA k : f.d.cmds[k].parent = f.cmd /\ ~f.d.cmds[k].hidden) IN
                      [i \in 1..Len(ks) |-> f.d.cmds[ks[i]].name]

\* every text the command diagnosis may produce (any nearest command may be the one suggested)
CommandTexts(f) ==
  LET names == VisibleSubNames(f)
      hasWord == f.err.t = "ErrUnknownCommand"
      enum(ns) == IF Len(ns) = 1 THEN ns[1] ELSE Join(SubSeq(ns, 1, Len(ns) - 1), tComma) \o tOr \o ns[Len(ns)] IN
  {IF ~hasWord THEN (IF a.kind = "none" THEN E ELSE IF Len(a.names) = 1 THEN tPleaseThe \o a.names[1] \o tCommand ELSE tPleaseOneOf \o enum(a.names))
   ELSE IF a.kind = "none" THEN tUnknownCmd \o f.err.word \o tApos
   ELSE IF a.kind = "suggest" THEN tUnknownCmd \o f.err.word \o tDidYouMean \o a.names[1] \o tAposQ
   ELSE IF Len(a.names) = 1 THEN tUnknownCmd \o f.err.word \o tYouShouldUse \o a.names[1] \o tCommand
   ELSE tUnknownCmd \o f.err.word \o tPleaseOneOfU \o enum(a.names)
   : a \in CL!Allowed(hasWord, f.err.word, names)}

\* one text, or a prefix, for the errors whose wording is a function of (type, option, aux)
MsgOf(f) ==
  LET e == f.err IN
  CASE e.t = "ErrUnknownFlag" -> Known(tUnknownFlag \o e.word \o tApos)
    [] e.t = "ErrNoArgumentForBool" -> Known(tBoolFlag \o e.opt \o tCannotArg)
    [] e.t = "ErrExpectedArgument" ->
         (CASE e.aux.k = "plain" -> Known(tExpectedArg \o e.opt \o tApos)
            \* (parser.go:543 hands the finished text to a format call: a percent sign in the echoed word or in the option's
            \*  name comes out mangled - observed, outside every listed property; such texts are not described)
            [] e.aux.k = "gotopt" -> IF InSeq(e.aux.a, 37) \/ InSeq(e.opt, 37) THEN Unknown ELSE Known(tExpectedArg \o e.opt \o tGotOption \o e.aux.a \o tApos)
            [] e.aux.k = "dd" -> Known(tExpectedArg \o e.opt \o tGotDD)
            \* the validator's own text goes through a format call: only percent-free texts come out unchanged
            [] e.aux.k = "validator" -> IF InSeq(e.aux.a, 37) THEN Unknown ELSE Known(tVVRefused \o e.aux.a \o tApos)
            [] OTHER -> Unknown)
    [] e.t = "ErrInvalidChoice" ->
         Known(tInvalidValue \o e.aux.a \o tForOption \o e.opt \o tAllowed
               \o (IF Len(e.names) = 1 THEN e.names[1] ELSE Join(SubSeq(e.names, 1, Len(e.names) - 1), tComma) \o tOr \o e.names[Len(e.names)]))
    [] e.t = "ErrMarshal" ->
         LET od == IF e.aux.o = 0 THEN [kind |-> "func1"] ELSE f.opts[e.aux.o]
             tn == IF e.aux.o = 0 THEN E ELSE FieldTypeName(od) IN
         IF e.aux.o = 0 THEN Unknown
         ELSE IF od.kind \in {"func0", "func1"} THEN KnownPrefix(tInvalidArg \o e.opt \o tAposColon)
         ELSE IF tn = E THEN KnownPrefix(tInvalidArg \o e.opt \o tApos)
         ELSE KnownPrefix(tInvalidArg \o e.opt \o tExpected \o tn \o tCloseColon)
    [] e.t = "ErrRequired" -> Known(RequiredText(f))
    [] OTHER -> Unknown

\* does the real message agree with what the specification says about its wording
MsgAgrees(f, msg) ==
  IF f.err.t \in {"ErrUnknownCommand", "ErrCommandRequired"} THEN msg \in CommandTexts(f)
  ELSE LET m == MsgOf(f) IN
       IF ~m.known THEN TRUE
       ELSE IF m.exact THEN msg = m.text
       ELSE HasPrefix(msg, m.text)
=============================================================================
