-------------------------------- MODULE Help --------------------------------
(***************************************************************************)
(* C16 / C17: the built-in help text (help.go) as a sequence of lines.     *)
(*   - which items are shown (visibility along the active chain),          *)
(*   - what each row says (names, value name, choices, description,        *)
(*     default or mask, environment variable),                             *)
(*   - the layout: one description column computed from the widest visible *)
(*     name, padding, greedy wrapping over CHARACTERS, hard break with a   *)
(*     hyphen, minimum width 10.                                           *)
(* Defect switches:                                                        *)
(*   "HelpBytes"      the pinned code measures what it has written, the    *)
(*                    argument prefix and the wrap width in bytes          *)
(*   "HelpMapOrder"   a map default is rendered in Go map order            *)
(* The text is a sequence of lines (without the final newline of each).    *)
(***************************************************************************)
EXTENDS Ini

Spaces(n) == [i \in 1..n |-> SPACE]
PanicLine == <<-1>>          \* stands for "the generator panics here" (strings.Repeat with a negative count)
Max2(a, b) == IF a > b THEN a ELSE b

---------------------------------------------------------------------------
(* visibility *)
ShowOpt(od) == ~od.hidden /\ (od.short # 0 \/ od.long # E)
OptsOfGroup(s, g) == SelectSeq([o \in 1..Len(s.opts) |-> o], LAMBDA o : s.opts[o].group = g)
GroupShows(s, g) == ~s.d.groups[g].hidden /\ \E o \in SeqToSet(OptsOfGroup(s, g)) : ShowOpt(s.opts[o])

\* the built-in help option lives in a group of its own, appended last to every command (group index 0 here)
HelpOptOf(s, c) == SelectSeq([o \in 1..Len(s.opts) |-> o], LAMBDA o : s.opts[o].kind = "help" /\ s.opts[o].cmd = c)

\* groups of command c as the help walks them: own group and its sub-tree, then the added groups; the help group last
HelpGroups(s, c) == GroupsOf(s.d, c)

---------------------------------------------------------------------------
(* default literal (option.go:507-540), from the value the field holds before parsing *)
CommaJoin(ss) == Join(ss, <<44, SPACE>>)
QuoteIfNeeded(t) == IF IsPrintS(t) THEN t ELSE QuoteS(t)
DefaultLiteral(s, o, pre) ==          \* pre: the pre-parse atoms of the field
  LET od == s.opts[o] IN
  IF od.defaults # <<>> THEN CommaJoin([i \in 1..Len(od.defaults) |-> QuoteIfNeeded(od.defaults[i])])
  ELSE IF FlagLike(od) THEN E
  ELSE CASE od.kind \in {"slice", "sliceptr"} -> IF pre = <<>> THEN E ELSE <<LBRACK>> \o CommaJoin([i \in 1..Len(pre) |-> RenderAtom(od, pre[i])]) \o <<RBRACK>>
         [] od.kind = "map" -> IF pre = <<>> THEN E
                               ELSE LET ps == IF Defect("HelpMapOrder") THEN pre ELSE RenderedPairs(od, pre) IN
                                    <<123>> \o CommaJoin([i \in 1..Len(ps) |-> ps[i][1] \o <<COLON>> \o RenderAtom(od, ps[i][2])]) \o <<125>>
         [] od.kind = "ptr" -> IF pre = <<>> THEN E ELSE RenderAtom(od, pre[1])
         [] od.kind \in {"func0", "func1"} -> E         \* a callback field that is set renders as the empty text
         [] OTHER -> IF pre = ZeroVal(od) THEN E ELSE RenderAtom(od, pre[1])

---------------------------------------------------------------------------
(* alignment (help.go:30-108) *)
LongPart(s, o) == LET od == s.opts[o] IN
                  s.nsLong[o] \o od.valueName \o (IF od.choices # <<>> THEN <<LBRACK>> \o Join(od.choices, <<124>>) \o <<RBRACK>> ELSE E)
Align(s, chain) ==
  LET cmdLens(c) == {Len(s.d.cmds[c].args[i].name) + (IF c # 1 THEN 4 ELSE 0) : i \in 1..Len(s.d.cmds[c].args)}
      shown(c) == {o \in 1..Len(s.opts) : s.opts[o].cmd = c /\ ShowOpt(s.opts[o]) /\ (s.opts[o].kind = "help" \/ GroupShows(s, s.opts[o].group))}
      optLens(c) == {Len(LongPart(s, o)) + (IF c # 1 THEN 4 ELSE 0) : o \in shown(c)}
      all == UNION {cmdLens(chain[k]) \cup optLens(chain[k]) : k \in 1..Len(chain)} \cup {0}
      allShown == UNION {shown(chain[k]) : k \in 1..Len(chain)}
  IN [maxLong |-> CHOOSE m \in all : \A x \in all : x <= m,
      hasShort |-> \E o \in allShown : s.opts[o].short # 0,
      hasValueName |-> \E o \in allShown : s.opts[o].valueName # E]
DescStart(a) == a.maxLong + 2 + (IF a.hasShort THEN 2 ELSE 0) + (IF a.maxLong > 0 THEN 4 ELSE 0) + (IF a.hasValueName THEN 3 ELSE 0)

---------------------------------------------------------------------------
(* wrapping (help.go:110-164), over characters.  Returns the lines; continuation lines carry the prefix.      *)
(* With HelpBytes the width is counted in bytes (the pinned code slices the byte string).                     *)
LenW(t) == IF Defect("HelpBytes") THEN ByteLen(t) ELSE Len(t)
\* wrap one paragraph (no newline inside), already trimmed
RECURSIVE WrapPara(_, _, _)
WrapPara(line, w, acc) ==
  IF Len(line) <= w THEN (IF line = E THEN acc ELSE Append(acc, line))
  ELSE LET head == Take(line, w)
           sp == SelectLastInSeq(head, LAMBDA c : c = SPACE) IN
       IF sp = 0 THEN \* no blank in the first w characters: hard break, w - 1 characters and a hyphen, then an empty line
            WrapPara(TrimSpace(Drop(line, w - 1)), w, Append(Append(acc, TrimSpace(Take(line, w - 1)) \o <<DASH>>), E))
       ELSE WrapPara(TrimSpace(Drop(line, sp - 1)), w, Append(acc, TrimSpace(Take(line, sp - 1))))
WrapText(t, width, prefix) ==
  LET w == Max2(width, 10)
      paras == Split(t, NL)
      linesOf(p) == WrapPara(TrimSpace(p), w, <<>>)
      all == FoldLeft(LAMBDA acc, k : acc \o (IF linesOf(paras[k]) = <<>> THEN <<E>> ELSE linesOf(paras[k])), <<>>, [k \in 1..Len(paras) |-> k])
  IN [i \in 1..Len(all) |-> IF i = 1 \/ all[i] = E THEN all[i] ELSE prefix \o all[i]]

---------------------------------------------------------------------------
(* one option row (help.go:166-255): the lines it produces *)
EnvText(s, o) == LET k == EnvKey(s.d, s.opts[o]) IN IF k = E THEN E ELSE <<SPACE, LBRACK, 36>> \o k \o <<RBRACK>>
OptionRow(s, o, a, indent, width, pre) ==
  LET od == s.opts[o]
      head == Spaces(2 + (IF indent THEN 4 ELSE 0))
              \o (IF od.short # 0 THEN <<DASH, od.short>> ELSE IF a.hasShort THEN Spaces(2) ELSE E)
              \o (IF od.long # E THEN (IF od.short # 0 THEN <<44, SPACE>> ELSE IF a.hasShort THEN Spaces(2) ELSE E) \o <<DASH, DASH>> \o s.nsLong[o] ELSE E)
              \o (IF CanArgument(od) THEN <<EQ>> \o od.valueName \o (IF od.choices # <<>> THEN <<LBRACK>> \o Join(od.choices, <<124>>) \o <<RBRACK>> ELSE E) ELSE E)
      ds == DescStart(a) + 2
      def == IF od.mask # E THEN (IF od.mask = <<DASH>> THEN E ELSE od.mask) ELSE DefaultLiteral(s, o, pre)
      text == od.desc \o (IF def # E THEN <<SPACE, 40, 100, 101, 102, 97, 117, 108, 116, COLON, SPACE>> \o def \o <<41>> ELSE E) \o EnvText(s, o)
      pad == ds - LenW(head)
      wrapped == WrapText(text, width - ds, Spaces(ds))
  IN IF od.desc = E THEN <<head>>
     ELSE IF pad < 0 THEN <<PanicLine>>                           \* strings.Repeat with a negative count
     ELSE <<head \o Spaces(pad) \o wrapped[1]>> \o Tail(wrapped)

---------------------------------------------------------------------------
(* usage line (help.go:294-375) *)
HasHelpOptions(s, c) == \E o \in 1..Len(s.opts) : s.opts[o].cmd = c /\ s.opts[o].kind # "help" /\ ShowOpt(s.opts[o])
VisibleSubs(s, c) == SelectSeq(SubCmdSeq(s.d, c), LAMBDA k : ~s.d.cmds[k].hidden)
SortedVisibleNames(s, c) == SortStrs([i \in 1..Len(VisibleSubs(s, c)) |-> s.d.cmds[VisibleSubs(s, c)[i]].name])
ArgUsage(cd) ==
  Join([i \in 1..Len(cd.args) |->
          LET nm == cd.args[i].name \o (IF cd.args[i].slice THEN <<DOT, DOT, DOT>> ELSE E) IN
          IF ~cd.argsReq /\ ~(cd.args[i].req > 0) THEN <<LBRACK>> \o nm \o <<RBRACK>> ELSE nm], <<SPACE>>)
UsageLine(s, chain, usageOf) ==
  LET part(k) ==
        LET c == chain[k]
            cd == s.d.cmds[c]
            usage == IF c = 1 THEN (IF HasOpt(s, "HelpFlag") THEN <<LBRACK, 79, 80, 84, 73, 79, 78, 83, RBRACK>> ELSE E)
                     ELSE IF HasHelpOptions(s, c) THEN <<LBRACK>> \o cd.name \o <<DASH, 79, 80, 84, 73, 79, 78, 83, RBRACK>> ELSE E
            subs == IF k = Len(chain) /\ SubCmds(s.d, c) # {} THEN
                       LET vis == SortedVisibleNames(s, c)
                           open == IF cd.subOpt THEN <<LBRACK>> ELSE <<60>>
                           close == IF cd.subOpt THEN <<RBRACK>> ELSE <<62>> IN
                       <<SPACE>> \o open \o (IF Len(vis) > 3 THEN <<99, 111, 109, 109, 97, 110, 100>> ELSE Join(vis, <<SPACE, 124, SPACE>>)) \o close
                    ELSE E
        IN <<SPACE>> \o cd.name \o (IF usage # E THEN <<SPACE>> \o usage ELSE E)
           \o (IF cd.args # <<>> THEN <<SPACE>> \o ArgUsage(cd) ELSE E) \o subs
  IN <<SPACE>> \o FoldLeft(LAMBDA acc, k : acc \o part(k), E, [k \in 1..Len(chain) |-> k])

---------------------------------------------------------------------------
(* the whole text (help.go:388-495).  pre[o]: pre-parse atoms of option o; width: terminal columns *)
MaxNameLen(s, subs) == LET ls == {LenW(s.d.cmds[k].name) : k \in SeqToSet(subs)} IN CHOOSE m \in ls : \A x \in ls : x <= m

HelpLines(s, chain, width0, pre) ==
  LET width == IF width0 <= 0 THEN 80 ELSE width0
      a == Align(s, chain)
      inner == chain[Len(chain)]
      ds == DescStart(a) + 2
      \* options: walk the chain; per command its groups in order, the help group of the root last
      cmdBlock(acc, c) ==
        LET gs == HelpGroups(s, c)
            step(st, g) ==
              IF s.d.groups[g].hidden THEN st
              ELSE LET os == SelectSeq(OptsOfGroup(s, g), LAMBDA o : ShowOpt(s.opts[o])) IN
                   FoldLeft(LAMBDA st2, o :
                              LET hdrCmd == IF st2.printcmd THEN <<E, <<LBRACK>> \o s.d.cmds[c].name \o <<SPACE, 99, 111, 109, 109, 97, 110, 100, SPACE, 111, 112, 116, 105, 111, 110, 115, RBRACK>>>> ELSE <<>>
                                  ind == st2.indent \/ st2.printcmd
                                  hdrGrp == IF st2.first /\ ~(s.d.groups[g].own /\ c = inner) THEN <<E, (IF ind THEN Spaces(4) ELSE E) \o s.d.groups[g].desc \o <<COLON>>>> ELSE <<>>
                              IN [st2 EXCEPT !.lines = @ \o hdrCmd \o hdrGrp \o OptionRow(s, o, a, ind, width, pre[o]), !.printcmd = FALSE, !.indent = ind, !.first = FALSE],
                            [st EXCEPT !.first = TRUE], os)
            afterGroups == FoldLeft(step, acc, gs)
            \* the built-in help group: shown for the root only
            helpOs == IF c = 1 THEN HelpOptOf(s, 1) ELSE <<>>
            afterHelp == FoldLeft(LAMBDA st2, o :
                              LET hdrGrp == IF st2.first2 THEN <<E, (IF st2.indent THEN Spaces(4) ELSE E) \o <<72, 101, 108, 112, SPACE, 79, 112, 116, 105, 111, 110, 115, COLON>>>> ELSE <<>> IN
                              [st2 EXCEPT !.lines = @ \o hdrGrp \o OptionRow(s, o, a, st2.indent, width, <<>>), !.first2 = FALSE],
                            [afterGroups EXCEPT !.first2 = TRUE] , helpOs)
            \* arguments with a description
            cd == s.d.cmds[c]
            descArgs == SelectSeq([i \in 1..Len(cd.args) |-> i], LAMBDA i : cd.args[i].desc # E)
            argHdr == IF c = 1 THEN <<E, <<65, 114, 103, 117, 109, 101, 110, 116, 115, COLON>>>>
                      ELSE <<E, <<LBRACK>> \o cd.name \o <<SPACE, 99, 111, 109, 109, 97, 110, 100, SPACE, 97, 114, 103, 117, 109, 101, 110, 116, 115, RBRACK>>>>
            argRow(i) == LET pfx == Spaces(2) \o cd.args[i].name \o <<COLON>>
                             wr == WrapText(cd.args[i].desc, width - 1 - ds, Spaces(ds)) IN
                         IF ds - LenW(pfx) < 0 THEN <<PanicLine>>
                         ELSE <<pfx \o Spaces(ds - LenW(pfx)) \o wr[1]>> \o Tail(wr)
            argLines == IF descArgs = <<>> THEN <<>> ELSE argHdr \o FoldLeft(LAMBDA l2, i : l2 \o argRow(i), <<>>, descArgs)
        IN [afterHelp EXCEPT !.lines = @ \o argLines, !.printcmd = TRUE]
      body == FoldLeft(LAMBDA acc, k : cmdBlock([acc EXCEPT !.printcmd = chain[k] # 1], chain[k]),
                       [lines |-> <<>>, printcmd |-> FALSE, indent |-> FALSE, first |-> TRUE, first2 |-> TRUE], [k \in 1..Len(chain) |-> k])
      subs == VisibleSubs(s, inner)
      sortedSubs == LET names == SortedVisibleNames(s, inner) IN [i \in 1..Len(names) |-> CHOOSE k \in SeqToSet(subs) : s.d.cmds[k].name = names[i]]
      cmdRows == IF subs = <<>> THEN <<>>
                 ELSE <<E, <<65, 118, 97, 105, 108, 97, 98, 108, 101, SPACE, 99, 111, 109, 109, 97, 110, 100, 115, COLON>>>>
                      \o [i \in 1..Len(sortedSubs) |->
                            LET cd == s.d.cmds[sortedSubs[i]] IN
                            Spaces(2) \o cd.name \o
                            (IF cd.desc # E THEN Spaces(MaxNameLen(s, subs) - LenW(cd.name)) \o Spaces(2) \o cd.desc
                                                 \o (IF cd.aliases # <<>> THEN <<SPACE, 40, 97, 108, 105, 97, 115, 101, 115, COLON, SPACE>> \o CommaJoin(cd.aliases) \o <<41>> ELSE E)
                             ELSE E)]
      \* the long description of the innermost active command, wrapped at the terminal width (help.go:404-412)
      longDesc == s.d.cmds[inner].longDesc
      longLines == IF longDesc = E THEN <<>> ELSE <<E>> \o WrapText(longDesc, width, E)
  IN <<<<85, 115, 97, 103, 101, COLON>>, UsageLine(s, chain, 0)>> \o longLines \o body.lines \o cmdRows

HasPanic(lines) == \E i \in 1..Len(lines) : lines[i] = PanicLine
=============================================================================
