------------------------------ MODULE HelpProps ------------------------------
(***************************************************************************)
(* C16 / C17 as predicates over ANY sequence of lines (the real output of  *)
(* the generator, or the layout the specification itself produces):        *)
(* LayoutOK, ContentOK (built-in help) and ManOK (man page).               *)
(***************************************************************************)
EXTENDS Help

\* collapse runs of white space to single blanks and trim
Collapse(t) ==
  LET r == FoldLeft(LAMBDA acc, c : IF IsSpace(c) THEN [acc EXCEPT !.sp = TRUE]
                                     ELSE [out |-> (IF acc.sp /\ acc.out # E THEN Append(acc.out, SPACE) ELSE acc.out) \o <<c>>, sp |-> FALSE],
                    [out |-> E, sp |-> FALSE], t)
  IN r.out

IsSubstr(needle, hay) == needle = E \/ (Len(needle) <= Len(hay) /\ \E i \in 1..(Len(hay) - Len(needle) + 1) : SubSeq(hay, i, i + Len(needle) - 1) = needle)

\* the name tokens in the name area of a line: blank-separated pieces, without a trailing comma and without "=value-name"
StripTok(t) == LET e == IndexOf(t, EQ)
                   u == IF e > 0 THEN Take(t, e - 1) ELSE t IN
               IF u # E /\ u[Len(u)] = 44 THEN Take(u, Len(u) - 1) ELSE u
NameTokens(line, ds) == LET ps == Split(Collapse(Take(line, ds)), SPACE) IN {StripTok(ps[i]) : i \in 1..Len(ps)}

\* index of the line that is the row headed by `head`: the line is head itself or head followed by a blank
FindRow(lines, head) == FirstIdx([i \in 1..Len(lines) |-> i], LAMBDA i : lines[i] = head \/ HasPrefix(lines[i], Append(head, SPACE)))

\* the continuation lines of the row starting at line i: following lines that are indented to the description column;
\* an empty line belongs to the row when such a line follows it (the wrapper emits one after a hard break)
IsCont(line, ds) == Len(line) > ds /\ Take(line, ds) = Spaces(ds) /\ line[ds + 1] # SPACE
RECURSIVE RowEnd(_, _, _)
RowEnd(lines, j, ds) ==
  IF j + 1 <= Len(lines) /\ IsCont(lines[j + 1], ds) THEN RowEnd(lines, j + 1, ds)
  ELSE IF j + 2 <= Len(lines) /\ lines[j + 1] = E /\ IsCont(lines[j + 2], ds) THEN RowEnd(lines, j + 2, ds)
  ELSE j

\* the text of a row, de-wrapped: pieces joined by a blank, except across a hard break (a line ending in '-' followed by an
\* empty line), where the hyphen is dropped and the pieces are glued
Rebuild(lines, i, j, ds) ==
  LET first == Drop(lines[i], ds)
      r == FoldLeft(LAMBDA acc, k :
                      IF lines[k] = E THEN [acc EXCEPT !.glue = acc.text # E /\ acc.text[Len(acc.text)] = DASH]
                      ELSE IF acc.glue THEN [text |-> Take(acc.text, Len(acc.text) - 1) \o Drop(lines[k], ds), glue |-> FALSE]
                      ELSE [text |-> acc.text \o <<SPACE>> \o Drop(lines[k], ds), glue |-> FALSE],
                    [text |-> first, glue |-> FALSE], [k \in 1..(j - i) |-> i + k])
  IN Collapse(r.text)

\* the expected text of an option row: description, default or mask, environment variable
RowText(s, o, pre) ==
  LET od == s.opts[o]
      def == IF od.mask # E THEN (IF od.mask = <<DASH>> THEN E ELSE od.mask) ELSE DefaultLiteral(s, o, pre)
  IN od.desc \o (IF def # E THEN <<SPACE, 40, 100, 101, 102, 97, 117, 108, 116, COLON, SPACE>> \o def \o <<41>> ELSE E) \o EnvText(s, o)

RowHead(s, o, a, indent) ==
  LET od == s.opts[o] IN
  Spaces(2 + (IF indent THEN 4 ELSE 0))
  \o (IF od.short # 0 THEN <<DASH, od.short>> ELSE IF a.hasShort THEN Spaces(2) ELSE E)
  \o (IF od.long # E THEN (IF od.short # 0 THEN <<44, SPACE>> ELSE IF a.hasShort THEN Spaces(2) ELSE E) \o <<DASH, DASH>> \o s.nsLong[o] ELSE E)
  \o (IF CanArgument(od) THEN <<EQ>> \o od.valueName \o (IF od.choices # <<>> THEN <<LBRACK>> \o Join(od.choices, <<124>>) \o <<RBRACK>> ELSE E) ELSE E)

\* two shown options may print the same names (a user's -h/--help next to the built-in one, or an option shadowed by a
\* command's option of the same names): such rows cannot be told apart in the text and their texts are not judged
UniqueHead(s, rows, a, r) == \A r2 \in 1..Len(rows) : r2 # r => RowHead(s, rows[r2].o, a, rows[r2].indent) # RowHead(s, rows[r].o, a, rows[r].indent)

\* options shown along the chain, with the indentation they are printed at (options of commands after the first
\* printed command header are indented)
ShownOpts(s, chain) ==
  LET shownOf(c) == SelectSeq([o \in 1..Len(s.opts) |-> o], LAMBDA o :
                       s.opts[o].cmd = c /\ ShowOpt(s.opts[o])
                       /\ (IF s.opts[o].kind = "help" THEN c = 1 ELSE ~s.d.groups[s.opts[o].group].hidden))
      r == FoldLeft(LAMBDA acc, k :
                      LET c == chain[k]
                          os == shownOf(c)
                          ind == acc.indent \/ (c # 1 /\ os # <<>>) IN
                      [rows |-> acc.rows \o [i \in 1..Len(os) |-> [o |-> os[i], indent |-> ind]], indent |-> ind],
                    [rows |-> <<>>, indent |-> FALSE], [k \in 1..Len(chain) |-> k])
  IN r.rows

HiddenOpts(s, chain) == {o \in 1..Len(s.opts) : InSeq(chain, s.opts[o].cmd) /\ s.opts[o].kind # "help"
                                                /\ (s.opts[o].hidden \/ s.d.groups[s.opts[o].group].hidden) /\ s.opts[o].long # E}

\* C17 on given lines
LayoutOK(lines, s, chain, width0, pre) ==
  LET width == IF width0 <= 0 THEN 80 ELSE width0
      a == Align(s, chain)
      ds == DescStart(a) + 2
      rows == ShownOpts(s, chain)
      optRows ==
        \A r \in 1..Len(rows) :
          LET o == rows[r].o
              head == RowHead(s, o, a, rows[r].indent)
              i == FindRow(lines, head) IN
          (s.opts[o].desc # E /\ UniqueHead(s, rows, a, r)) =>
            /\ i # 0
            /\ Len(head) <= ds
            /\ HasPrefix(lines[i], head \o Spaces(ds - Len(head)))                      \* every description starts in the common column
            /\ Len(lines[i]) > ds /\ lines[i][ds + 1] # SPACE
            /\ LET j == RowEnd(lines, i, ds) IN
               /\ Rebuild(lines, i, j, ds) = Collapse(RowText(s, o, pre[o]))               \* the original words, in order, nothing lost
               /\ (width - ds >= 10 => \A k \in i..j : Len(lines[k]) <= width)           \* no line beyond the terminal width
      \* the described positional arguments of the chain are rows of the same table: same column, continuation lines indented to it
      argRows ==
        \A k \in 1..Len(chain) : \A x \in 1..Len(s.d.cmds[chain[k]].args) :
          LET ad == s.d.cmds[chain[k]].args[x]
              head == Spaces(2) \o ad.name \o <<COLON>>
              \* two commands of the chain may name a positional alike: some row with this name carries this description
              cands == {i \in 1..Len(lines) : (lines[i] = head \/ HasPrefix(lines[i], Append(head, SPACE))) /\ Len(lines[i]) > ds}
          IN (ad.desc # E /\ Len(head) <= ds) =>
               \E i \in cands :
                  /\ HasPrefix(lines[i], head \o Spaces(ds - Len(head))) /\ lines[i][ds + 1] # SPACE
                  /\ LET j == RowEnd(lines, i, ds) IN
                     /\ Rebuild(lines, i, j, ds) = Collapse(ad.desc)
                     /\ (width - ds >= 10 => \A m \in i..j : Len(lines[m]) <= width)
  IN optRows /\ argRows

\* C16 on given lines (built-in help)
ContentOK(lines, s, chain, pre) ==
  LET a == Align(s, chain)
      ds == DescStart(a) + 2
      rows == ShownOpts(s, chain)
      inner == chain[Len(chain)]
      shownLongs == {s.nsLong[rows[r].o] : r \in 1..Len(rows)}
  IN /\ \A r \in 1..Len(rows) :                                                           \* every visible option has its row, with its text
          LET o == rows[r].o
              i == FindRow(lines, RowHead(s, o, a, rows[r].indent)) IN
          /\ i # 0
          /\ (s.opts[o].desc # E /\ UniqueHead(s, rows, a, r)) => (Len(lines[i]) >= ds /\ Rebuild(lines, i, RowEnd(lines, i, ds), ds) = Collapse(RowText(s, o, pre[o])))
     /\ \A o \in HiddenOpts(s, chain) :                                                   \* nothing hidden is listed
          s.nsLong[o] \notin shownLongs =>
            \A i \in 1..Len(lines) : (<<DASH, DASH>> \o s.nsLong[o]) \notin NameTokens(lines[i], ds)
     /\ \A k \in SeqToSet(SubCmdSeq(s.d, inner)) :                                        \* visible sub-commands are listed, hidden ones are not
          LET cd == s.d.cmds[k]
              i == FindRow(lines, Spaces(2) \o cd.name) IN
          IF cd.hidden THEN (\A k2 \in SeqToSet(SubCmdSeq(s.d, inner)) : (~s.d.cmds[k2].hidden) => s.d.cmds[k2].name # cd.name) => i = 0
          ELSE /\ i # 0
               /\ cd.desc # E => IsSubstr(Collapse(cd.desc), Collapse(lines[i]))
               /\ (cd.desc # E /\ cd.aliases # <<>>) => \A x \in 1..Len(cd.aliases) : IsSubstr(cd.aliases[x], lines[i])
     /\ \A k \in 1..Len(chain) :                                                          \* described positional arguments
          \A x \in 1..Len(s.d.cmds[chain[k]].args) :
             LET ad == s.d.cmds[chain[k]].args[x]
                 head == Spaces(2) \o ad.name \o <<COLON>> IN        \* (two commands of the chain may name a positional alike: some row has the text)
             ad.desc # E => \E i \in 1..Len(lines) :
                               /\ (lines[i] = head \/ HasPrefix(lines[i], Append(head, SPACE)))
                               /\ Len(lines[i]) >= ds /\ Rebuild(lines, i, RowEnd(lines, i, ds), ds) = Collapse(ad.desc)
     /\ \A o \in 1..Len(s.d.opts) :                                                       \* a masked default's real value never appears
          (s.opts[o].mask # E /\ s.opts[o].defaults # <<>> /\ HasPrefix(s.opts[o].defaults[1], <<83, 69, 67, 82, 69, 84>>)) =>
             \A i \in 1..Len(lines) : ~IsSubstr(s.opts[o].defaults[1], lines[i])

---------------------------------------------------------------------------
(* man page (man.go): judged on presence of every visible option and command by name and absence of everything hidden / masked *)
RECURSIVE CmdVisibleM(_, _)
CmdVisibleM(d, c) == IF c = 1 THEN TRUE ELSE ~d.cmds[c].hidden /\ CmdVisibleM(d, d.cmds[c].parent)
RECURSIVE CmdPathM(_, _)
CmdPathM(d, c) == IF c = 1 THEN <<>> ELSE Append(CmdPathM(d, d.cmds[c].parent), d.cmds[c].name)
ManLong(nm) == <<BACKSLASH, 102, 66, BACKSLASH, DASH, BACKSLASH, DASH>> \o nm \o <<BACKSLASH, 102, 82>>       \* \fB\-\-name\fR
\* the .TP entry of one option, exactly as writeManPageOptions prints it (man.go:75-118)
ManQ(t) == FoldLeft(LAMBDA acc, c : IF c = BACKSLASH THEN acc \o <<BACKSLASH, BACKSLASH>> ELSE Append(acc, c), E, t)
QuoteV(vs) == Join([i \in 1..Len(vs) |-> QuoteS(vs[i])], <<44, SPACE>>)
fB == <<BACKSLASH, 102, 66>>
fR == <<BACKSLASH, 102, 82>>
fI == <<BACKSLASH, 102, 73>>
fP == <<BACKSLASH, 102, 80>>
DefaultOpen == <<SPACE, 60, 100, 101, 102, 97, 117, 108, 116, COLON, SPACE>> \o fI          \*  <default: \fI
ManEntry(s, o) ==
  LET od == s.opts[o]
      key == EnvKey(s.d, od) IN
  fB \o (IF od.short # 0 THEN fB \o <<BACKSLASH, DASH, od.short>> \o fR ELSE E)
     \o (IF od.long # E THEN (IF od.short # 0 THEN <<44, SPACE>> ELSE E) \o fB \o <<BACKSLASH, DASH, BACKSLASH, DASH>> \o ManQ(s.nsLong[o]) \o fR ELSE E)
     \o (IF od.optional THEN <<SPACE, LBRACK>> \o fI \o ManQ(od.valueName) \o <<EQ>> \o ManQ(QuoteV(od.optvals)) \o fR \o <<RBRACK>>
         ELSE IF od.valueName # E THEN <<SPACE>> \o fI \o ManQ(od.valueName) \o fR ELSE E)
     \o (IF od.mask # E THEN (IF od.mask = <<DASH>> THEN E ELSE DefaultOpen \o ManQ(od.mask) \o fR \o <<62>>)
         ELSE IF od.defaults # <<>> THEN DefaultOpen \o ManQ(QuoteV(od.defaults)) \o fR \o <<62>>
         ELSE IF key # E THEN DefaultOpen \o <<36>> \o ManQ(key) \o fR \o <<62>> ELSE E)
     \o (IF od.required THEN <<SPACE, 40>> \o fI \o <<114, 101, 113, 117, 105, 114, 101, 100>> \o fR \o <<41>> ELSE E)
     \o fP
\* texts the man formatter passes through unchanged: no back-quote (bold markup) and no backslash
PlainForMan(t) == \A i \in 1..Len(t) : t[i] # 96 /\ t[i] # BACKSLASH
StringsKnown(od) == \A k \in 1..Len(od.defaults) : IsPrintKnownS(od.defaults[k])

ManOK(lines, s) ==
  LET d == s.d
      vis(o) == CmdVisibleM(d, d.opts[o].cmd) /\ GroupShows(s, d.opts[o].group) /\ ShowOpt(d.opts[o])
      visLongs == {s.nsLong[o] : o \in {o \in 1..Len(d.opts) : vis(o) /\ d.opts[o].long # E}}
                  \cup {s.nsLong[o] : o \in {o \in 1..Len(s.opts) : s.opts[o].kind = "help"}}          \* the built-in --help of every command
  IN /\ \A o \in 1..Len(d.opts) :
          d.opts[o].long # E /\ IndexOf(s.nsLong[o], BACKSLASH) = 0 =>
            (IF vis(o) THEN \E i \in 1..Len(lines) : IsSubstr(ManLong(s.nsLong[o]), lines[i])
             ELSE (s.nsLong[o] \notin visLongs) => \A i \in 1..Len(lines) : ~IsSubstr(ManLong(s.nsLong[o]), lines[i]))
     /\ \A o \in 1..Len(d.opts) :                                  \* every visible option has its entry, attribute by attribute, and its description
          (vis(o) /\ StringsKnown(d.opts[o]) /\ \A k \in 1..Len(d.opts[o].optvals) : IsPrintKnownS(d.opts[o].optvals[k])) =>
             \E i \in 1..Len(lines) :
                /\ lines[i] = ManEntry(s, o)
                /\ (d.opts[o].desc # E /\ PlainForMan(d.opts[o].desc)) =>
                       LET dl == Split(d.opts[o].desc, NL) IN
                       i + Len(dl) <= Len(lines) /\ \A k \in 1..Len(dl) : lines[i + k] = dl[k]
     /\ \A c \in 2..Len(d.cmds) :                                    \* aliases of visible commands are listed
          (CmdVisibleM(d, c) /\ d.cmds[c].aliases # <<>>) =>
             \E i \in 1..Len(lines) : lines[i] = fB \o <<65, 108, 105, 97, 115, 101, 115>> \o fP \o <<COLON, SPACE>> \o ManQ(Join(d.cmds[c].aliases, <<44, SPACE>>))
     /\ \A c \in 2..Len(d.cmds) :
          LET hdr == <<DOT, 83, 83, SPACE>> \o Join(CmdPathM(d, c), <<SPACE>>) IN
          IF CmdVisibleM(d, c) THEN \E i \in 1..Len(lines) : lines[i] = hdr
          ELSE \A i \in 1..Len(lines) : lines[i] # hdr
     /\ \A o \in 1..Len(d.opts) :
          (d.opts[o].mask # E /\ d.opts[o].defaults # <<>> /\ HasPrefix(d.opts[o].defaults[1], <<83, 69, 67, 82, 69, 84>>)) =>
             \A i \in 1..Len(lines) : ~IsSubstr(d.opts[o].defaults[1], lines[i])

=============================================================================
