---------------------------- MODULE MC_ArgParse ----------------------------
(***************************************************************************)
(* Exhaustive model of the argument loop: for every catalogue declaration, *)
(* every parser-option set and every argument vector up to MaxLen over a   *)
(* token alphabet derived from the declaration, the loop is run one named  *)
(* action at a time and the properties C01, C03, C04, C06-C10 are checked  *)
(* as invariants / action properties of the specification itself.         *)
(* Every initial state is also printed as a scenario ("SCN" lines) and     *)
(* replayed on the real code by the harness (spec -> code direction).      *)
(***************************************************************************)
EXTENDS ArgParse, FTab, Json

CONSTANTS DeclIds,      \* which catalogue declarations
          MaxLen,       \* vectors of length 0..MaxLen
          POptSets,     \* set of parser-option sequences
          Handlers,     \* subset of {"none","identity","dropnext","dropall","inject","error"}
          Policy,       \* token classes of the alphabet
          PreMode,      \* "none": fresh parsers only; "cmds": the judged parse is also run as the SECOND ParseArgs of a parser whose
                        \*         first one selected some command path (every path of the declaration)
          Emit          \* TRUE: print one SCN line per initial state

VARIABLE st

Decls == ndJsonDeserialize("catalog_decls.ndjson")

---------------------------------------------------------------------------
(* Token alphabet derived from a declaration *)

ValuesFor(od) ==
  IF od.choices # <<>> THEN {od.choices[1], <<122>>}
  ELSE IF od.kind = "map" THEN {<<107, 58, 53>>, <<107, 58, 54>>, <<106, 58, 55>>}          \* k:5 k:6 j:7
  ELSE IF IsSignedInt(od.vtype) THEN {<<53>>, <<45, 53>>, <<120>>, <<48, 49, 48>>}                 \* 5 -5 x 010
  ELSE IF IsUnsignedInt(od.vtype) THEN {<<53>>, <<45, 49>>}
  ELSE {<<97>>, <<61, 98>>}                                                                     \* a =b

OptTokens(d, od) ==
  LET nl == NsLong(d, od)
      sh == IF od.short = 0 THEN {} ELSE {<<DASH, od.short>>}
      lg == IF od.long = E THEN {} ELSE {<<DASH, DASH>> \o nl}
  IN IF FlagLike(od) THEN sh \cup lg
     ELSE sh \cup lg \cup ValuesFor(od)
          \cup (IF od.short = 0 THEN {} ELSE UNION {{<<DASH, od.short>> \o v, <<DASH, od.short, EQ>> \o v} : v \in ValuesFor(od)})
          \cup (IF od.long = E THEN {} ELSE {<<DASH, DASH>> \o nl \o <<EQ>> \o v : v \in ValuesFor(od)})

Shorts(d, P(_)) == {d.opts[o].short : o \in {o \in 1..Len(d.opts) : d.opts[o].short # 0 /\ P(d.opts[o])}}
ClusterTokens(d) ==
  LET fl == Shorts(d, FlagLike)
      ar == Shorts(d, LAMBDA od : ~FlagLike(od))
  IN {<<DASH, a, b>> : a \in fl, b \in fl} \cup {<<DASH, a, b>> : a \in fl, b \in ar}
CmdTokens(d) == UNION {{d.cmds[c].name} \cup SeqToSet(d.cmds[c].aliases) : c \in 2..Len(d.cmds)}
OddTokens == {E, <<DASH>>, <<DASH, DASH>>, <<DASH, DASH, DASH, 120>>, <<119>>}              \* "" - -- ---x w
UnknownTokens == {<<DASH, 113>>, <<DASH, DASH, 117, 110, 107>>, <<DASH, DASH, 117, 110, 107, EQ, 118>>}     \* -q --unk --unk=v
FmtTokens == {<<DASH, DASH, 37, 100>>, <<37, 115>>}                                                        \* --%d %s : echoed in messages, never a format
NearTokens(d) ==        \* near misses of declared long names: proper prefix, case flip of the first letter, name without namespaces
  UNION {LET nl == NsLong(d, d.opts[o]) IN
         (IF Len(nl) > 1 THEN {<<DASH, DASH>> \o Take(nl, Len(nl) - 1)} ELSE {})
         \cup (IF nl # E /\ IsLower(nl[1]) THEN {<<DASH, DASH>> \o <<nl[1] - 32>> \o Tail(nl)} ELSE {})
         \cup (IF nl # d.opts[o].long THEN {<<DASH, DASH>> \o d.opts[o].long, <<DASH, DASH>> \o Take(nl, Len(nl) - Len(d.opts[o].long))} ELSE {})
         : o \in {o \in 1..Len(d.opts) : d.opts[o].long # E}}
HelpTokens == {<<DASH, 104>>, <<DASH, DASH, 104, 101, 108, 112>>}

Alphabet(d) ==
  (IF "opts" \in Policy THEN UNION {OptTokens(d, d.opts[o]) : o \in 1..Len(d.opts)} ELSE {})
  \cup (IF "clusters" \in Policy THEN ClusterTokens(d) ELSE {})
  \cup (IF "cmds" \in Policy THEN CmdTokens(d) ELSE {})
  \cup (IF "odd" \in Policy THEN OddTokens ELSE {})
  \cup (IF "unknown" \in Policy THEN UnknownTokens ELSE {})
  \cup (IF "near" \in Policy THEN NearTokens(d) ELSE {})
  \cup (IF "help" \in Policy THEN HelpTokens ELSE {})
  \cup (IF "fmt" \in Policy THEN FmtTokens ELSE {})

Vectors(d) == UNION {[1..n -> Alphabet(d)] : n \in 0..MaxLen}

Scenario(di, po, h, argv) ==
  [decl |-> di, popts |-> po, handler |-> h, cmdHandler |-> TRUE, execErr |-> FALSE, env |-> <<>>, argv |-> argv, completion |-> E, hasPrelude |-> FALSE, prelude |-> <<>>]

\* the words that select command c (one filler word per positional of the commands on the way), followed by the options
\* its own required options need - a first parse that succeeds as far as the chain is concerned
PreFill(cd) == IF \E i \in 1..Len(cd.args) : cd.args[i].slice THEN <<>> ELSE [i \in 1..Len(cd.args) |-> <<49>>]
RECURSIVE PrePath(_, _)
PrePath(d, c) == IF c = 1 THEN <<>> ELSE PrePath(d, d.cmds[c].parent) \o PreFill(d.cmds[d.cmds[c].parent]) \o <<d.cmds[c].name>>
Preludes(d) == {[has |-> FALSE, v |-> <<>>]} \cup (IF PreMode = "cmds" THEN {[has |-> TRUE, v |-> PrePath(d, c)] : c \in 2..Len(d.cmds)} ELSE {})

---------------------------------------------------------------------------
Init == \E di \in DeclIds, po \in POptSets, h \in Handlers :
          \E pre \in Preludes(Decls[di]) : \E argv \in Vectors(Decls[di]) :
             st = IF pre.has
                  THEN ReuseState(Run(S0(Decls[di], [Scenario(di, po, h, pre.v) EXCEPT !.hasPrelude = TRUE, !.prelude = pre.v], FTab)), argv)
                  ELSE S0(Decls[di], Scenario(di, po, h, argv), FTab)

Act(a) == EnabledA(a, st) /\ st' = [ApplyA(a, st) EXCEPT !.steps = @ + 1]

Start == Act("Start")
Terminator == Act("Terminator")
PassAfterNonOption == Act("PassAfterNonOption")
NonOptPositional == Act("NonOptPositional")
NonOptCommand == Act("NonOptCommand")
NonOptUnknownCommand == Act("NonOptUnknownCommand")
NonOptRest == Act("NonOptRest")
LongOpt == Act("LongOpt")
ShortBegin == Act("ShortBegin")
ShortRune == Act("ShortRune")
LoopEnd == Act("LoopEnd")
ApplyDefaults == Act("ApplyDefaults")
CheckRequired == Act("CheckRequired")
DiagnoseCommand == Act("DiagnoseCommand")
Dispatch == Act("Dispatch")
SkipToReturn == Act("SkipToReturn")
Return == Act("Return")

Next == \/ Start \/ Terminator \/ PassAfterNonOption \/ NonOptPositional \/ NonOptCommand \/ NonOptUnknownCommand \/ NonOptRest
        \/ LongOpt \/ ShortBegin \/ ShortRune \/ LoopEnd \/ ApplyDefaults \/ CheckRequired
        \/ DiagnoseCommand \/ Dispatch \/ SkipToReturn \/ Return

Spec == Init /\ [][Next]_st

---------------------------------------------------------------------------
(* Properties of the specification *)

Done == st.phase = "done"
Ok == st.err.t = "none"
Execs(evs) == SelectSeq(evs, LAMBDA e : e.k = "exec")
Calls(evs) == SelectSeq(evs, LAMBDA e : e.k = "call")
Unks(evs) == SelectSeq(evs, LAMBDA e : e.k = "unk")
Argv == st.sc.argv
Idx(P(_)) == SelectSeq([i \in 1..Len(Argv) |-> i], P)

\* the loop is deterministic and total: exactly one action enabled until done (C04: no dead end, no hang)
Deterministic == IF Done THEN EnabledSet(st) = {} ELSE Cardinality(EnabledSet(st)) = 1
TotalChars == FoldLeft(LAMBDA acc, t : acc + Len(t) + 1, 0, Argv)
Terminates == st.steps <= 2 * TotalChars + 8

\* C04: typed errors and output discipline
Typed == /\ st.err.t \in FlagsErrTypes \cup {"none", "foreign"}
         /\ Done => st.out = (IF ~Ok /\ HasOpt(st, "PrintErrors")
                              THEN (IF st.err.t = "ErrHelp" THEN [stdout |-> 1, stderr |-> 0] ELSE [stdout |-> 0, stderr |-> 1])
                              ELSE [stdout |-> 0, stderr |-> 0])
         /\ ~Done => st.out = [stdout |-> 0, stderr |-> 0]

\* C03 / C10: conservation.  While the loop runs, every token is either still queued or classified.
Pending == Cardinality({i \in 1..Len(st.role) : st.role[i] = "pending"})
ConservationStep == (~st.hmod /\ st.phase \in {"loop", "cluster"} /\ Ok) => Pending = Len(st.args)
RoleTokens(r) == LET ix == Idx(LAMBDA i : st.role[i] = r) IN [k \in 1..Len(ix) |-> Argv[ix[k]]]
\* positional values in binding order: commands along the chain, fields in declaration order, slice elements in order
PosFlat == FoldLeft(LAMBDA acc, c : acc \o FoldLeft(LAMBDA a2, i :
                        a2 \o (IF st.d.cmds[c].args[i].slice THEN st.pos[c][i]
                               ELSE IF \E k \in 1..Len(st.posq) : st.posq[k] = [c |-> c, i |-> i] THEN <<>> ELSE st.pos[c][i]),
                      <<>>, [i \in 1..Len(st.d.cmds[c].args) |-> i]), <<>>, st.chain)
PosTypes == FoldLeft(LAMBDA acc, c : acc \o FoldLeft(LAMBDA a2, i :
                        a2 \o (IF st.d.cmds[c].args[i].slice THEN [k \in 1..Len(st.pos[c][i]) |-> [c |-> c, i |-> i]]
                               ELSE IF \E k \in 1..Len(st.posq) : st.posq[k] = [c |-> c, i |-> i] THEN <<>> ELSE <<[c |-> c, i |-> i]>>),
                      <<>>, [i \in 1..Len(st.d.cmds[c].args) |-> i]), <<>>, st.chain)
Conservation ==
  (Done /\ Ok /\ ~st.hmod) =>
     /\ st.retargs = RoleTokens("rest")                                   \* exactly the unconsumed tokens, in order
     /\ Pending = 0                                                        \* every token was classified
     /\ LET toks == RoleTokens("positional") IN
        /\ Len(toks) = Len(PosFlat)
        /\ \A k \in 1..Len(toks) :
              LET ad == st.d.cmds[PosTypes[k].c].args[PosTypes[k].i] IN
              ad.map \/ PosFlat[k] = ConvScalar(ad.vtype, ad.base, toks[k], st.ftab).v
     /\ \A k \in 1..Len(Execs(st.events)) : Execs(st.events)[k].args = st.retargs

\* C08: the chain is a function of the command-word tokens only
ChainFromWords ==
  LET words == RoleTokens("command") IN
  ~st.hmod => st.chain = FoldLeft(LAMBDA ch, w : Append(ch, Resolve(st.d, ch[Len(ch)], w)), <<1>>, words)
\* ... also on a parser that lived through an earlier parse: no Active pointer of that parse survives (C08; the pinned code
\* kept them, switch StaleActive)
ActiveIsChain == (Done /\ ~st.hmod) => ActiveChain(st, 1) = st.chain
\* scoping, declaratively: a name denotes the option declared in the innermost command of the chain that declares it
DeclLookupLong(name) ==
  LET cands == {o \in 1..Len(st.opts) : st.opts[o].long # E /\ st.nsLong[o] = name /\ InSeq(st.chain, st.opts[o].cmd)}
      depth(o) == FirstIdx(st.chain, LAMBDA c : c = st.opts[o].cmd)
      deepest == {o \in cands : \A p \in cands : depth(p) <= depth(o)}
  IN IF cands = {} THEN 0 ELSE CHOOSE o \in deepest : \A p \in deepest : p <= o
DeclLookupShort(r) ==
  LET cands == {o \in 1..Len(st.opts) : st.opts[o].short = r /\ r # 0 /\ InSeq(st.chain, st.opts[o].cmd)}
      depth(o) == FirstIdx(st.chain, LAMBDA c : c = st.opts[o].cmd)
      deepest == {o \in cands : \A p \in cands : depth(p) <= depth(o)}
  IN IF cands = {} THEN 0 ELSE CHOOSE o \in deepest : \A p \in deepest : p <= o
AllNames == {st.nsLong[o] : o \in 1..Len(st.opts)} \cup {<<117, 110, 107>>}
AllShorts == {st.opts[o].short : o \in 1..Len(st.opts)} \cup {113}
ScopeAgrees == /\ \A n \in AllNames : n # E => LookupLong(st, n) = DeclLookupLong(n)
               /\ \A r \in AllShorts : r # 0 => LookupShort(st, r) = DeclLookupShort(r)

\* C07: under the failing policy an accepted parse mentions only options in scope when they were met
\* (each recorded occurrence belongs to a command of the final chain)
OccInScope == (Done /\ Ok) => \A k \in 1..Len(st.occ) : InSeq(st.chain, st.opts[st.occ[k].o].cmd)
UnknownNeverSilent ==
  (Done /\ Ok /\ ~st.hmod) =>
      \* every token that kept the role "option" was recognised: it produced at least one occurrence
      Len(st.occ) >= Cardinality({i \in 1..Len(Argv) : st.role[i] = "option"})

\* C09: execution exactly once, last, only on success
ExecSafety == /\ Len(Execs(st.events)) <= 1
              /\ Execs(st.events) # <<>> => st.phase \in {"return", "done"}
              /\ (Done /\ st.err.t \in FlagsErrTypes) => Execs(st.events) = <<>>
ExecOnlyAtDispatch == [][Len(Execs(st'.events)) > Len(Execs(st.events)) => (st.phase = "finish" /\ st.err.t = "none")]_st

\* C06: required options, declaratively: an option is supplied iff it occurred or has a default / environment value
Supplied(o) == \/ \E k \in 1..Len(st.occ) : st.occ[k].o = o
               \/ st.opts[o].defaults # <<>>
               \/ (EnvKey(st.d, st.opts[o]) # E /\ EnvLookup(st, EnvKey(st.d, st.opts[o])).set)
MissingDecl == {o \in 1..Len(st.opts) : st.opts[o].required /\ InSeq(st.chain, st.opts[o].cmd) /\ ~Supplied(o)}
\* (on a fresh parser; the isSet marks of an earlier parse stay, see ReuseState)
RequiredEnforced ==
  st.sc.hasPrelude \/
  /\ (Done /\ Ok) => MissingDecl = {}
  /\ (Done /\ st.err.t = "ErrRequired" /\ MissingDecl # {}) =>
        SeqToSet(st.err.names) = {OptString(st.d, st.opts[o]) : o \in MissingDecl} /\ Execs(st.events) = <<>>
  /\ (Done /\ Ok) => UnmetArgs(st) = <<>>

\* C01: values denote the occurrences (options without defaults; the default phase is C05's subject)
OccOf(o) == SelectSeq(st.occ, LAMBDA x : x.o = o)
DenoteOK(o) ==
  LET od == st.opts[o]
      oc == OccOf(o)
      conv(x) == IF od.kind = "map" THEN ConvScalar(od.vtype, od.base, MapVal(x.arg), st.ftab).v
                 ELSE ConvScalar(od.vtype, od.base, x.arg, st.ftab).v
  IN IF oc = <<>> \/ od.defaults # <<>> \/ od.env # E \/ od.optional THEN TRUE
     ELSE CASE od.kind \in {"flag", "ptrflag"} -> st.val[o] = <<S_true>>
            [] od.kind = "counter" -> st.val[o] = [k \in 1..Len(oc) |-> S_true]
            [] od.kind \in {"scalar", "ptr"} -> st.val[o] = <<conv(oc[Len(oc)])>>
            [] od.kind = "slice" -> st.val[o] = [k \in 1..Len(oc) |-> conv(oc[k])]
            [] od.kind = "map" -> /\ \A k \in 1..Len(oc) :
                                       (\A m \in (k + 1)..Len(oc) : MapKey(oc[m].arg) # MapKey(oc[k].arg))
                                          => \E p \in 1..Len(st.val[o]) : st.val[o][p] = <<MapKey(oc[k].arg), conv(oc[k])>>
                                  /\ \A p \in 1..Len(st.val[o]) : \E k \in 1..Len(oc) : st.val[o][p][1] = MapKey(oc[k].arg)
            [] od.kind \in {"func0", "func1"} ->
                   LET cs == SelectSeq(Calls(st.events), LAMBDA e : e.o = o) IN
                   /\ Len(cs) = Len(oc)
                   /\ (od.kind = "func1" /\ od.param = "") => \A k \in 1..Len(oc) : cs[k].arg = conv(oc[k])
            [] OTHER -> TRUE
ValuesDenote == (Done /\ Ok /\ ~st.grey) => \A o \in 1..Len(st.d.opts) : DenoteOK(o)
UntouchedWithoutOccurrence ==
  (Done /\ Ok /\ ~st.sc.hasPrelude) => \A o \in 1..Len(st.d.opts) :
      (OccOf(o) = <<>> /\ st.opts[o].defaults = <<>> /\ st.opts[o].env = E) => st.val[o] = st.opts[o].init

\* scenario emission (spec -> code): one line per initial state
EmitScenario == (Emit /\ st.steps = 0) => PrintT("SCN " \o ToJson(st.sc))
=============================================================================
