------------------------------- MODULE Conv -------------------------------
(***************************************************************************)
(* Text -> value for every option type go-flags supports (convert.go).     *)
(* Values are kept as canonical text (strings as-is, integers as canonical *)
(* decimal numerals, booleans "true"/"false").  TLC integers are 32 bit,   *)
(* so numerals are digit sequences (most significant digit first) and all  *)
(* arithmetic on them is schoolbook arithmetic written out here.           *)
(*                                                                         *)
(* Result convention (three-valued oracle):                                *)
(*    [ok |-> TRUE,  v |-> canonical]     the text denotes that value      *)
(*    [ok |-> FALSE, v |-> E]             the text must be rejected        *)
(*    Unspec                              the specification is silent      *)
(***************************************************************************)
EXTENDS Strs

Okv(v) == [ok |-> TRUE, unspec |-> FALSE, v |-> v]
Rej == [ok |-> FALSE, unspec |-> FALSE, v |-> E]
Unspec == [ok |-> FALSE, unspec |-> TRUE, v |-> E]

---------------------------------------------------------------------------
(* digit sequences, base 10, most significant first; <<>> is zero *)

StripZeros(ds) == LET k == FirstIdx(ds, LAMBDA x : x # 0) IN IF k = 0 THEN <<>> ELSE Drop(ds, k - 1)

\* ds * m + a   for small m (<= 36) and a (<= 35)
MulAdd(ds, m, a) ==
  LET r == FoldRight(LAMBDA x, acc :
                        LET t == x * m + acc.carry IN
                        [digits |-> <<t % 10>> \o acc.digits, carry |-> t \div 10],
                     ds, [digits |-> <<>>, carry |-> a])
      \* the remaining carry is < 36 + 35 < 100: at most two more digits
      hi == IF r.carry = 0 THEN <<>> ELSE IF r.carry < 10 THEN <<r.carry>> ELSE <<r.carry \div 10, r.carry % 10>>
  IN StripZeros(hi \o r.digits)

\* comparison of canonical (no leading zeros) digit sequences
NumLess(a, b) == IF Len(a) # Len(b) THEN Len(a) < Len(b)
                 ELSE \E i \in 1..Len(a) : a[i] < b[i] /\ \A j \in 1..(i - 1) : a[j] = b[j]
NumLeq(a, b) == a = b \/ NumLess(a, b)

Pow2Raw(n) == FoldLeft(LAMBDA acc, i : MulAdd(acc, 2, 0), <<1>>, [i \in 1..n |-> i])
\* constant-level table: TLC evaluates it once at start-up
Pow2Table == [n \in {7, 8, 15, 16, 31, 32, 63, 64} |-> Pow2Raw(n)]
Pow2(n) == Pow2Table[n]

\* ds - 1 for ds > 0
Pred(ds) ==
  LET k == LastIdx(ds, LAMBDA x : x # 0) IN
  StripZeros([i \in 1..Len(ds) |-> IF i < k THEN ds[i] ELSE IF i = k THEN ds[i] - 1 ELSE 9])

\* ds div m and ds mod m for small m
DivMod(ds, m) ==
  LET r == FoldLeft(LAMBDA acc, x : LET t == acc.rem * 10 + x IN [q |-> Append(acc.q, t \div m), rem |-> t % m], [q |-> <<>>, rem |-> 0], ds)
  IN [q |-> StripZeros(r.q), rem |-> r.rem]
\* digits of ds in base b, most significant first (<<>> for zero)
RECURSIVE ToBaseDigits(_, _)
ToBaseDigits(ds, b) == IF ds = <<>> THEN <<>> ELSE LET dm == DivMod(ds, b) IN Append(ToBaseDigits(dm.q, b), dm.rem)
BaseDigitChar(n) == IF n < 10 THEN 48 + n ELSE 87 + n
\* strconv.FormatInt / FormatUint of a canonical decimal numeral (optional leading '-') in base b
FormatInBase(txt, b) ==
  LET neg == txt # E /\ txt[1] = DASH
      body == IF neg THEN Tail(txt) ELSE txt
      ds == StripZeros([i \in 1..Len(body) |-> body[i] - 48])
      out == ToBaseDigits(ds, b)
      t == IF out = <<>> THEN <<48>> ELSE [i \in 1..Len(out) |-> BaseDigitChar(out[i])]
  IN IF neg /\ out # <<>> THEN <<DASH>> \o t ELSE t

\* decimal text of a digit sequence
DigitsText(ds) == IF ds = <<>> THEN <<48>> ELSE [i \in 1..Len(ds) |-> ds[i] + 48]

---------------------------------------------------------------------------
(* integers: strconv.ParseInt / ParseUint with an explicit base 2..36 *)

DigitVal(c) == IF IsDigit(c) THEN c - 48 ELSE IF IsLower(c) THEN c - 97 + 10 ELSE IF IsUpper(c) THEN c - 65 + 10 ELSE 99

\* magnitude in decimal digits, or <<-1>> if a character is not a digit of the base / text empty
Magnitude(txt, base) ==
  IF txt = E \/ \E i \in 1..Len(txt) : DigitVal(txt[i]) >= base THEN <<-1>>
  ELSE FoldLeft(LAMBDA acc, c : MulAdd(acc, base, DigitVal(c)), <<>>, txt)

ParseSigned(txt, base, bits) ==
  LET neg == txt # E /\ txt[1] = DASH
      body == IF txt # E /\ txt[1] \in {DASH, 43} THEN Tail(txt) ELSE txt
      mag == Magnitude(body, base)
      lim == Pow2(bits - 1)                      \* 2^(bits-1)
  IN IF mag = <<-1>> THEN Rej
     ELSE IF neg THEN (IF NumLeq(mag, lim) THEN Okv(IF mag = <<>> THEN <<48>> ELSE <<DASH>> \o DigitsText(mag)) ELSE Rej)
     ELSE (IF NumLess(mag, lim) THEN Okv(DigitsText(mag)) ELSE Rej)

ParseUnsigned(txt, base, bits) ==
  LET mag == Magnitude(txt, base) IN          \* no sign accepted at all
  IF mag = <<-1>> THEN Rej
  ELSE IF NumLess(mag, Pow2(bits)) THEN Okv(DigitsText(mag)) ELSE Rej

IntBits(t) == CASE t = "int8" -> 8 [] t = "int16" -> 16 [] t = "int32" -> 32 [] t = "int64" -> 64 [] t = "int" -> 64
                [] t = "uint8" -> 8 [] t = "uint16" -> 16 [] t = "uint32" -> 32 [] t = "uint64" -> 64 [] t = "uint" -> 64
                [] OTHER -> 0
IsSignedInt(t) == t \in {"int", "int8", "int16", "int32", "int64"}
IsUnsignedInt(t) == t \in {"uint", "uint8", "uint16", "uint32", "uint64"}
IsFloat(t) == t \in {"float32", "float64"}

---------------------------------------------------------------------------
(* booleans: strconv.ParseBool; the empty text means true (convert.go:215) *)
S_true == <<116, 114, 117, 101>>
S_false == <<102, 97, 108, 115, 101>>
TrueLits == {<<49>>, <<116>>, <<84>>, <<84, 82, 85, 69>>, S_true, <<84, 114, 117, 101>>}
FalseLits == {<<48>>, <<102>>, <<70>>, <<70, 65, 76, 83, 69>>, S_false, <<70, 97, 108, 115, 101>>}
ParseBoolT(txt) == IF txt = E \/ txt \in TrueLits THEN Okv(S_true) ELSE IF txt \in FalseLits THEN Okv(S_false) ELSE Rej

---------------------------------------------------------------------------
(* floats and durations: finite literal tables.  A table row is                *)
(*   [txt, t (type), ok, v (canonical text as the harness reports it)]         *)
(* Outside the tables the specification is silent (Unspec).                    *)
Lookup(table, t, txt) ==
  LET k == FirstIdx(table, LAMBDA r : r.t = t /\ r.txt = txt) IN
  IF k = 0 THEN Unspec ELSE IF table[k].ok THEN Okv(table[k].v) ELSE Rej

---------------------------------------------------------------------------
(* the custom Unmarshaler of the harness (type UM): accepts any text that does *)
(* not begin with '!' and stores it prefixed by "um:"                          *)
UMPrefix == <<117, 109, 58>>
ParseUM(txt) == IF txt # E /\ txt[1] = 33 THEN Rej ELSE Okv(UMPrefix \o txt)

\* the harness' bool-kinded Unmarshaler (type TB bool): "on" -> true, "off" -> false, anything else refused
ParseTB(txt) == IF txt = <<111, 110>> THEN Okv(S_true) ELSE IF txt = <<111, 102, 102>> THEN Okv(S_false) ELSE Rej

---------------------------------------------------------------------------
(* scalar conversion by element type.  ftab = float/duration table             *)
ConvScalar(t, base, txt, ftab) ==
  CASE t \in {"string", "cc"} -> Okv(txt)          \* cc: the harness' string type with completions
    [] t = "bool" -> ParseBoolT(txt)
    [] IsSignedInt(t) -> IF base >= 2 /\ base <= 36 THEN ParseSigned(txt, base, IntBits(t)) ELSE Unspec
    [] IsUnsignedInt(t) -> IF base >= 2 /\ base <= 36 THEN ParseUnsigned(txt, base, IntBits(t)) ELSE Unspec
    [] t \in {"um", "us"} -> ParseUM(txt)        \* us: the harness' string-kinded type with the same Unmarshaler
    [] t = "tb" -> ParseTB(txt)
    [] OTHER -> Lookup(ftab, t, txt)              \* float32, float64, duration

\* key:value for maps (convert.go:273-301): split at the first ':'; a missing ':' gives the empty value text
MapKey(txt) == LET k == IndexOf(txt, COLON) IN IF k = 0 THEN txt ELSE Take(txt, k - 1)
MapVal(txt) == LET k == IndexOf(txt, COLON) IN IF k = 0 THEN E ELSE Drop(txt, k)
=============================================================================
