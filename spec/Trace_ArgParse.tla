--------------------------- MODULE Trace_ArgParse ---------------------------
(***************************************************************************)
(* TraceRecs validation for the argument-parsing family.  One TLC step         *)
(* consumes one recorded scenario: the specification's outcome is computed *)
(* with Run and each property's projection of it is compared with what the *)
(* real ParseArgs did.  Mismatches are collected per property, never       *)
(* blocking, so one rejection does not hide the rest of the trace.         *)
(***************************************************************************)
EXTENDS Spelling, ErrText, FTab, Json, IOUtils

VARIABLE l

TraceRecs == ndJsonDeserialize("trace.ndjson")
Decls == ndJsonDeserialize("decls.ndjson")

Props == {"C01", "C02", "C03", "C04", "C06", "C07", "C08", "C09", "C10", "C11", "C15", "DRIFT", "MSG"}

\* a scenario may start with a first ParseArgs on the same parser (prelude); the judged call is the second one
Final(rec, argv) ==
  LET s0 == S0(Decls[rec.decl], [rec EXCEPT !.argv = IF rec.hasPrelude THEN rec.prelude ELSE argv, !.completion = IF rec.hasPrelude THEN E ELSE rec.completion], FTab) IN
  IF ~rec.hasPrelude THEN Run(s0)
  ELSE IF rec.renameOpt > 0 THEN     \* the LongName field of one option was assigned between the calls: the second call knows it by the new name only
       LET s1 == ReuseState(Run(s0), argv)
           od == [s1.opts[rec.renameOpt] EXCEPT !.long = rec.renameLong] IN
       Run([s1 EXCEPT !.opts[rec.renameOpt] = od, !.nsLong[rec.renameOpt] = NsLong(s1.d, od), !.sc.completion = rec.completion])
  ELSE IF rec.lateGroup THEN Run([UnmaskLate(ReuseState(Run(MaskLate(s0)), argv), s0) EXCEPT !.sc.completion = rec.completion])
  ELSE Run([ReuseState(Run(s0), argv) EXCEPT !.sc.completion = rec.completion])

UserN(f) == Len(f.d.opts)
ValEq(kind, sv, ov) == IF kind = "map" THEN SeqToSet(sv) = SeqToSet(ov) /\ Len(sv) = Len(ov) ELSE sv = ov
ValuesEq(f, o) == Len(o.values) = UserN(f) /\ \A i \in 1..UserN(f) : ValEq(f.opts[i].kind, f.val[i], o.values[i])
PosEq(f, o) == o.pos = f.pos
Calls(evs) == SelectSeq(evs, LAMBDA e : e.k = "call")
Unks(evs) == SelectSeq(evs, LAMBDA e : e.k = "unk")
Execs(evs) == SelectSeq(evs, LAMBDA e : e.k = "exec")
Crashed(o) == o.panic \/ o.timeout
SpecOk(f) == f.err.t = "none"
ObsErrT(o) == IF o.errType \in {"foreign:exec", "foreign:handler", "foreign"} THEN "foreign" ELSE o.errType

\* --- C04: total, contained, typed.  Judged on every scenario (also the grey ones).
J04(f, o, rec) ==
  /\ ~Crashed(o) \/ f.err.t = "panic"
  /\ Crashed(o) \/
     (/\ o.ok <=> o.errType = "none"
      /\ ~f.grey => ((SpecOk(f) <=> o.ok) /\ (f.err.t \in FlagsErrTypes => o.errType = f.err.t)
                                           /\ (o.errType \in FlagsErrTypes => f.err.t = o.errType))
      /\ IF InSeq(rec.popts, "PrintErrors") /\ ~o.ok
         THEN (IF o.errType = "ErrHelp" THEN o.stdout = 1 /\ o.stderr = 0 ELSE o.stdout = 0 /\ o.stderr = 1)
         ELSE o.stdout = 0 /\ o.stderr = 0)

Dom(f, o) == ~f.grey /\ ~Crashed(o)          \* the scenarios the other properties speak about

\* --- C01: option fields hold what the command line denotes (successful parses)
J01(f, o) == (Dom(f, o) /\ SpecOk(f)) => (o.ok /\ ValuesEq(f, o) /\ Calls(o.events) = Calls(f.events) /\ o.untouched)

\* --- C03: conservation of unconsumed arguments (successful parses)
J03(f, o) == /\ (Dom(f, o) /\ SpecOk(f)) =>
                (/\ o.ok /\ o.retargs = f.retargs /\ PosEq(f, o)
                 /\ o.argvIntact                      \* the caller's vector is read, never written: no token of it is altered either
                 /\ \A i \in 1..Len(Execs(o.events)) : Execs(o.events)[i].args = f.retargs)
             \* a parse that reports success accounts for every token: a vector the specification rejects (a token that can be
             \* neither bound nor returned) must not come back as a success with that token dropped
             /\ (Dom(f, o) /\ o.ok) => SpecOk(f)

\* --- C06: required options and argument counts
J06(f, o) == Dom(f, o) =>
                (/\ (f.err.t = "ErrRequired") <=> (o.errType = "ErrRequired")
                 /\ f.err.t = "ErrRequired" => (SeqToSet(o.errNames) = SeqToSet(f.err.names) /\ Execs(o.events) = <<>>))

\* --- C07: unknown options
J07(f, o) == Dom(f, o) =>
                (/\ (f.err.t = "ErrUnknownFlag") <=> (o.errType = "ErrUnknownFlag")
                 /\ f.err.t = "ErrUnknownFlag" => o.errWord = f.err.word
                 /\ Unks(o.events) = Unks(f.events)
                 /\ SpecOk(f) => o.retargs = f.retargs)

\* --- C08: command selection and scoping
J08(f, o) == Dom(f, o) =>
                (/\ o.chain = ActiveChain(f, 1)            \* what the public Active pointers show (= f.chain unless a stale pointer survives)
                 /\ o.chain = f.chain                      \* ... and that is the chain the command words of this vector select
                 /\ \A t \in {"ErrCommandRequired", "ErrUnknownCommand"} : (f.err.t = t) <=> (o.errType = t)
                 /\ f.err.t = "ErrUnknownCommand" => o.errWord = f.err.word
                 /\ SpecOk(f) => ValuesEq(f, o))

\* --- C09: execution exactly once, only after a fully successful parse
J09(f, o) == Dom(f, o) =>
                (/\ Execs(o.events) = Execs(f.events)
                 /\ Len(Execs(o.events)) <= 1
                 \* a parse that reports no error has run the innermost active command exactly once (through Execute or the
                 \* CommandHandler) - or there is nothing to run
                 /\ (o.ok /\ f.sc.completion = E /\ o.chain # <<>>) =>
                       Len(Execs(o.events)) = (IF f.d.cmds[o.chain[Len(o.chain)]].exec \/ f.sc.cmdHandler THEN 1 ELSE 0)
                 /\ (f.err.t = "foreign" /\ Execs(f.events) # <<>>) => o.errType = "foreign:exec"
                 /\ o.errType = "foreign:exec" => Execs(f.events) # <<>>)

\* --- C10: positional binding
J10(f, o) == /\ (Dom(f, o) /\ SpecOk(f)) => (o.ok /\ PosEq(f, o) /\ o.retargs = f.retargs)
             \* a token that cannot be bound to the positional it falls to fails the parse: success is not an answer
             /\ (Dom(f, o) /\ o.ok) => SpecOk(f)

\* --- C11: values are converted exactly or rejected with the documented error naming the option (and listing the choices)
ConvErrs == {"ErrMarshal", "ErrInvalidChoice"}
J11(f, o) == Dom(f, o) =>
                (/\ \A t \in ConvErrs : (f.err.t = t) <=> (o.errType = t)
                 /\ f.err.t \in ConvErrs => o.errOpt = f.err.opt
                 /\ f.err.t = "ErrInvalidChoice" => o.errList = f.err.names
                 /\ SpecOk(f) => (o.ok /\ ValuesEq(f, o) /\ PosEq(f, o) /\ Calls(o.events) = Calls(f.events)))

\* --- C02: the two spellings give the same outcome (and each equals the specification's)
\* admissible for the value as written in either vector (the exhaustive pair model writes it raw in one, quoted in the other)
Adm2(f, rec) == /\ Admissible(f, rec.altInfo, rec.popts)
                /\ rec.altInfo.has2 => Admissible(f, [rec.altInfo EXCEPT !.value = rec.altInfo.value2], rec.popts)

Outcome(o) == [ok |-> o.ok, t |-> ObsErrT(o), values |-> o.values, pos |-> o.pos, retargs |-> IF o.ok THEN o.retargs ELSE <<>>,
               chain |-> o.chain, calls |-> Calls(o.events)]
SpecOutcomeEq(f, o) == /\ SpecOk(f) <=> o.ok
                       /\ f.err.t = ObsErrT(o)
                       /\ SpecOk(f) => (ValuesEq(f, o) /\ PosEq(f, o) /\ o.retargs = f.retargs /\ Calls(o.events) = Calls(f.events))

J02(rec, f, o) ==
  IF ~("alt" \in DOMAIN rec) \/ ~("altInfo" \in DOMAIN rec) \/ ~("obsAlt" \in DOMAIN rec) THEN TRUE
  ELSE LET fa == Final(rec, rec.alt) IN
       (/\ Dom(f, o) /\ ~fa.grey /\ ~Crashed(rec.obsAlt) /\ Adm2(f, rec)
        \* the occurrence must be one: the token is parsed as an option in both vectors (not passed through)
        /\ ~f.hmod /\ ~fa.hmod /\ f.role[rec.altInfo.pos] = "option" /\ fa.role[rec.altInfo.pos] = "option") =>
           (/\ Outcome(o) = Outcome(rec.obsAlt)
            /\ SpecOutcomeEq(f, o) /\ SpecOutcomeEq(fa, rec.obsAlt))

\* everything observable agrees (fidelity of the model; never a verdict)
FullEq(f, o) ==
  Dom(f, o) => (/\ f.err.t = ObsErrT(o)
                /\ o.chain = ActiveChain(f, 1)
                /\ o.events = f.events
                /\ f.err.t \in {"ErrMarshal", "ErrExpectedArgument", "ErrNoArgumentForBool", "ErrInvalidChoice"} => o.errOpt = f.err.opt
                /\ SpecOk(f) => (ValuesEq(f, o) /\ PosEq(f, o) /\ o.retargs = f.retargs
                                 /\ \A i \in 1..UserN(f) : o.isSet[i] = f.isSet[i]
                                 /\ \A k \in 1..UserN(f) : o.isSetDef[k] = f.isSetDef[k])       \* Option.IsSetDefault
                \* what ParseArgs returns beside an error (parser.go:341-351): the unparsed tail for a help request, otherwise the
                \* token being handled followed by the unparsed tail (not required by any property; fidelity only)
                /\ (~SpecOk(f) /\ f.sc.completion = E) => o.retargs = (IF f.err.t = "ErrHelp" THEN f.args ELSE <<f.cur>> \o f.args))

B(x) == IF x THEN 1 ELSE 0
InDom02(rec, f, o) ==
  /\ "alt" \in DOMAIN rec /\ "altInfo" \in DOMAIN rec /\ "obsAlt" \in DOMAIN rec
  /\ LET fa == Final(rec, rec.alt) IN
     /\ Dom(f, o) /\ ~fa.grey /\ ~Crashed(rec.obsAlt) /\ Adm2(f, rec)
     /\ ~f.hmod /\ ~fa.hmod /\ f.role[rec.altInfo.pos] = "option" /\ fa.role[rec.altInfo.pos] = "option"

JudgeWith(rec, f, o) ==
     [C01 |-> J01(f, o), C02 |-> J02(rec, f, o), C03 |-> J03(f, o), C04 |-> J04(f, o, rec), C06 |-> J06(f, o), C07 |-> J07(f, o),
      C08 |-> J08(f, o), C09 |-> J09(f, o), C10 |-> J10(f, o), C11 |-> J11(f, o), DRIFT |-> FullEq(f, o),
      \* the wording of the error message is the one ErrText.tla derives from the final state (fidelity only, like DRIFT)
      MSG |-> (Dom(f, o) /\ ~SpecOk(f) /\ f.err.t = ObsErrT(o) /\ f.sc.completion = E) => MsgAgrees(f, o.errMsg),
      C15 |-> Crashed(o) \/ o.distinct <= 1,           \* repeated runs on fresh parsers gave one observation (values, error message bytes, events)
      \* how often each property's antecedent was met (non-vacuity figures for the evidence)
      grey |-> B(f.grey), ok |-> B(SpecOk(f)), steps |-> f.steps,
      msg |-> B(Dom(f, o) /\ ~SpecOk(f) /\ f.err.t = ObsErrT(o) /\ f.sc.completion = E
                /\ (f.err.t \in {"ErrUnknownCommand", "ErrCommandRequired"} \/ MsgOf(f).known)),       \* messages whose wording was compared
      d01 |-> B(Dom(f, o) /\ SpecOk(f) /\ f.occ # <<>>),
      d02 |-> B(InDom02(rec, f, o)),
      d03 |-> B(Dom(f, o) /\ SpecOk(f) /\ f.retargs # <<>>),
      d04 |-> B(~SpecOk(f)),
      d06 |-> B(Dom(f, o) /\ f.err.t = "ErrRequired"),
      d07 |-> B(Dom(f, o) /\ (f.err.t = "ErrUnknownFlag" \/ Unks(f.events) # <<>>)),
      d08 |-> B(Dom(f, o) /\ Len(f.chain) > 1),
      d09 |-> B(Dom(f, o) /\ Execs(f.events) # <<>>),
      d10 |-> B(Dom(f, o) /\ SpecOk(f) /\ InSeq(f.role, "positional")),
      d11 |-> B(Dom(f, o) /\ (f.err.t \in ConvErrs \/ (SpecOk(f) /\ f.occ # <<>>)))]
Judge(rec) == JudgeWith(rec, TLCEval(Final(rec, rec.argv)), rec.obs)

StatKeys == {"grey", "ok", "steps", "msg", "d01", "d02", "d03", "d04", "d06", "d07", "d08", "d09", "d10", "d11"}
\* One state per record.  The judging is done in an invariant, not in the action: TLC caches lazily evaluated
\* operator arguments and LET definitions only when it evaluates a state predicate; inside a next-state action every
\* use re-evaluates them, which turns the nested operators of the specification exponential on large records.
Init == l = 1 /\ TLCSet(1, [p \in Props |-> {}]) /\ TLCSet(2, [k \in StatKeys |-> 0]) /\ TLCSet(3, 0)
Next == l < Len(TraceRecs) /\ l' = l + 1
Spec == Init /\ [][Next]_l
JudgeRecord ==
  (l <= Len(TraceRecs)) =>
    LET j == Judge(TraceRecs[l]) IN
    /\ TLCSet(1, [p \in Props |-> IF j[p] THEN TLCGet(1)[p] ELSE TLCGet(1)[p] \cup {l}])
    /\ TLCSet(2, [k \in StatKeys |-> TLCGet(2)[k] + j[k]])
    /\ TLCSet(3, TLCGet(3) + 1)

Post == /\ PrintT(<<"VERIF-CONSUMED", TLCGet(3), Len(TraceRecs)>>)
        /\ PrintT(<<"VERIF-STAT", TLCGet(2)>>)
        /\ \A p \in Props : PrintT(<<"VERIF-BAD", p, TLCGet(1)[p]>>)
=============================================================================
