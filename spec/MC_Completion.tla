---------------------------- MODULE MC_Completion ----------------------------
(***************************************************************************)
(* C18 on the specification: for every sequence of typed words up to       *)
(* MaxWords over an alphabet derived from the declaration and every        *)
(* partial last word, the completion walk (as the code does it) and the    *)
(* candidates derived from the parser's own context agree on every valid   *)
(* prefix; the list is sorted; every offered option / command name is      *)
(* accepted by the parser at that position.  Every case is printed as a    *)
(* scenario and replayed on the real code.                                 *)
(***************************************************************************)
EXTENDS Completion, FTab, Json
CONSTANTS DeclIds, MaxWords, POptSets, Emit
VARIABLE st

Decls == ndJsonDeserialize("catalog_decls.ndjson")
Scn(di, po) == [decl |-> di, popts |-> po, handler |-> "none", cmdHandler |-> FALSE, execErr |-> FALSE, env |-> <<>>, argv |-> <<>>,
                completion |-> E, hasPrelude |-> FALSE, prelude |-> <<>>]
Start(di, po) == Step(S0(Decls[di], Scn(di, po), FTab))

Val1 == <<97, 108>>      \* "al"
WordsOf(d) ==
  UNION {LET od == d.opts[o] nl == NsLong(d, od) IN
         (IF od.long # E THEN {<<DASH, DASH>> \o nl} \cup (IF FlagLike(od) THEN {} ELSE {<<DASH, DASH>> \o nl \o <<EQ>> \o Val1}) ELSE {})
         \cup (IF od.short # 0 THEN {<<DASH, od.short>>} \cup (IF FlagLike(od) THEN {} ELSE {<<DASH, od.short>> \o Val1}) ELSE {})
         : o \in 1..Len(d.opts)}
  \cup UNION {{d.cmds[c].name} \cup SeqToSet(d.cmds[c].aliases) : c \in 2..Len(d.cmds)}
  \cup {Val1, <<119>>, <<DASH, DASH>>, <<DASH, 118, 110>>, <<DASH, DASH, 117, 110, 107>>}          \* al w -- -vn --unk
Partials(d) ==
  {E, <<DASH>>, <<DASH, DASH>>, <<97>>, <<DASH, DASH, 110>>, <<DASH, DASH, 102>>, <<DASH, DASH, 110, 97, 109, 101, EQ>>,
   <<DASH, DASH, 110, 97, 109, 101, EQ, 97, 108>>, <<DASH, 110>>, <<DASH, 110, 98, 101>>, <<DASH, 102, EQ, 103>>, <<98, 101>>, <<115>>, <<103>>,
   <<DASH, DASH, 104>>, <<DASH, DASH, 115>>, <<DASH, DASH, 111, 112, 116, EQ>>}

Init == \E di \in DeclIds, po \in POptSets : st = [stage |-> "seed", di |-> di, po |-> po]
Expand == /\ st.stage = "seed"
          /\ \E n \in 0..MaxWords : \E ws \in [1..n -> WordsOf(Decls[st.di])] : \E p \in Partials(Decls[st.di]) :
                st' = [stage |-> "words", di |-> st.di, po |-> st.po, words |-> Append(ws, p)]
Next == Expand
Spec == Init /\ [][Next]_st

InDomain(s0, ws) == LET ctx == Context(s0, ws) IN ctx.valid /\ ~ctx.grey
WalkAgreesWithParser ==
  (st.stage = "words") =>
    LET s0 == Start(st.di, st.po) IN
    InDomain(s0, st.words) => WalkItems(s0, st.words) = DeclItems(s0, st.words)
\* every offered option / command name is accepted by the parser (no unknown flag / unknown command) at that position
NameItems(items) == SelectSeq(items, LAMBDA it : ~(it # E /\ it[1] = DASH /\ IndexOf(it, EQ) > 0))
OfferedIsAccepted ==
  (st.stage = "words") =>
    LET s0 == Start(st.di, st.po)
        items == DeclItems(s0, st.words)
        typed == Take(st.words, Len(st.words) - 1)
        last == st.words[Len(st.words)]
        \* names only: items produced by option-name or command completion (value completions are texts, not names)
        isName == Context(s0, st.words).pending = 0 /\ (StartsOption(last) => IndexOf(last, EQ) = 0)
                  /\ (~StartsOption(last) => Context(s0, st.words).s.posq = <<>>)
                  /\ ~(Len(last) >= 2 /\ last[1] = DASH /\ last[2] # DASH)
    IN (InDomain(s0, st.words) /\ isName) =>
         \A k \in 1..Len(items) :
            LET f == Run([s0 EXCEPT !.sc.argv = Append(typed, items[k]), !.args = Append(typed, items[k]),
                                    !.role = [i \in 1..(Len(typed) + 1) |-> "pending"]]) IN
            f.err.t \notin {"ErrUnknownFlag", "ErrUnknownCommand"}
Sorted == (st.stage = "words") => LET it == WalkItems(Start(st.di, st.po), st.words) IN \A k \in 1..(Len(it) - 1) : StrLeq(it[k], it[k + 1])
EmitScn == (Emit /\ st.stage = "words") =>
              PrintT("SCN " \o ToJson([fam |-> "completion", decl |-> st.di, popts |-> st.po, words |-> st.words, tags |-> <<"mc">>]))
=============================================================================
