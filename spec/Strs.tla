------------------------------- MODULE Strs -------------------------------
(***************************************************************************)
(* Characters are integers (Unicode code points; a byte that is not valid  *)
(* UTF-8 is 1114112 + byte).  Strings / tokens are sequences of them.      *)
(* Everything here is a pure operator.                                     *)
(***************************************************************************)
EXTENDS Naturals, Integers, Sequences, FiniteSets, SequencesExt, Functions

DASH == 45
EQ == 61
QUOTE == 34
BACKSLASH == 92
COLON == 58
SPACE == 32
NL == 10
CR == 13
TAB == 9
DOT == 46
SEMI == 59
HASH == 35
LBRACK == 91
RBRACK == 93
BADBYTE == 1114112          \* first code of "invalid byte" characters
REPLCHAR == 65533           \* U+FFFD

E == <<>>                   \* the empty string

Drop(s, n) == IF n >= Len(s) THEN <<>> ELSE SubSeq(s, n + 1, Len(s))
Take(s, n) == IF n >= Len(s) THEN s ELSE SubSeq(s, 1, n)

\* index of the first occurrence of character c in s, 0 if none  (SelectInSeq is linear; a CHOOSE with a nested
\* quantifier is quadratic and takes minutes on the multi-kilobyte lines of the INI checks)
IndexOf(s, c) == SelectInSeq(s, LAMBDA x : x = c)

HasPrefix(s, p) == Len(p) <= Len(s) /\ Take(s, Len(p)) = p

\* does some element of sequence ss equal x
InSeq(ss, x) == \E i \in 1..Len(ss) : ss[i] = x

\* index of the last element of ss satisfying P, 0 if none
LastIdx(ss, P(_)) == SelectLastInSeq(ss, P)

\* index of the first element of ss satisfying P, 0 if none
FirstIdx(ss, P(_)) == SelectInSeq(ss, P)

\* concatenate a sequence of strings with a separator
Join(ss, sep) ==
  FoldLeft(LAMBDA acc, i : IF i = 1 THEN ss[i] ELSE acc \o sep \o ss[i], E, [i \in 1..Len(ss) |-> i])

\* split s at every occurrence of the single character c (as strings.Split: n separators give n + 1 pieces)
Split(s, c) ==
  LET pos == SelectSeq([i \in 1..Len(s) |-> i], LAMBDA i : s[i] = c)
      n == Len(pos)
  IN [k \in 1..(n + 1) |-> SubSeq(s, (IF k = 1 THEN 1 ELSE pos[k - 1] + 1), (IF k = n + 1 THEN Len(s) ELSE pos[k] - 1))]

\* ASCII classes
IsDigit(c) == c >= 48 /\ c <= 57
IsLower(c) == c >= 97 /\ c <= 122
IsUpper(c) == c >= 65 /\ c <= 90
ToLowerC(c) == IF IsUpper(c) THEN c + 32 ELSE c
ToLower(s) == [i \in 1..Len(s) |-> ToLowerC(s[i])]

\* Unicode white space as Go's unicode.IsSpace (Latin-1 part + the listed others)
IsSpace(c) == c \in {9, 10, 11, 12, 13, 32, 133, 160, 5760, 8232, 8233, 8239, 8287, 12288}
              \/ (c >= 8192 /\ c <= 8202)
TrimLeft(s) == LET a == SelectInSeq(s, LAMBDA x : ~IsSpace(x)) IN IF a = 0 THEN E ELSE SubSeq(s, a, Len(s))
TrimRight(s) == LET b == SelectLastInSeq(s, LAMBDA x : ~IsSpace(x)) IN SubSeq(s, 1, b)
TrimSpace(s) == LET a == SelectInSeq(s, LAMBDA x : ~IsSpace(x)) b == SelectLastInSeq(s, LAMBDA x : ~IsSpace(x)) IN
                IF a = 0 THEN E ELSE SubSeq(s, a, b)

\* lexicographic order on strings by code point
RECURSIVE StrLess(_, _)
StrLess(a, b) ==
  IF b = E THEN FALSE
  ELSE IF a = E THEN TRUE
  ELSE IF a[1] # b[1] THEN a[1] < b[1]
  ELSE StrLess(Tail(a), Tail(b))
StrLeq(a, b) == a = b \/ StrLess(a, b)

\* sort a sequence of strings (insertion sort by folding)
InsertSorted(ss, x) ==
  LET k == FirstIdx(ss, LAMBDA y : StrLess(x, y)) IN
  IF k = 0 THEN Append(ss, x) ELSE Take(ss, k - 1) \o <<x>> \o Drop(ss, k - 1)
SortStrs(ss) == FoldLeft(InsertSorted, <<>>, ss)

\* character as it appears after Go's `for _, c := range string` : invalid bytes become U+FFFD
Sanitize(c) == IF c >= BADBYTE THEN REPLCHAR ELSE c
SanitizeS(s) == [i \in 1..Len(s) |-> Sanitize(s[i])]

\* number of bytes of the UTF-8 encoding of a character
ByteLenC(c) == IF c >= BADBYTE THEN 1 ELSE IF c < 128 THEN 1 ELSE IF c < 2048 THEN 2 ELSE IF c < 65536 THEN 3 ELSE 4
ByteLen(s) == FoldLeft(LAMBDA acc, c : acc + ByteLenC(c), 0, s)

SeqToSet(s) == {s[i] : i \in 1..Len(s)}
=============================================================================
