------------------------------ MODULE ArgParse ------------------------------
(***************************************************************************)
(* The argument loop of go-flags (parser.go:205-354), the option cells     *)
(* (option.go:242-373), the defaults phase, the required check, command    *)
(* diagnosis, dispatch and error printing, as pure operators over one      *)
(* state record.  One operator pair Enabled_X / Apply_X per branch of the  *)
(* real loop; MC_ArgParse turns them into named TLA+ actions, Step / Run   *)
(* iterate them for trace validation and for the relational properties.    *)
(*                                                                         *)
(* The operational part follows the code's structure; each decision is     *)
(* resolved by the documented intent.  Where the pinned code is known to   *)
(* decide differently there is a defect switch (a member of the set        *)
(* Defects); with the switch on the specification reproduces the pinned    *)
(* code at exactly that decision.                                          *)
(***************************************************************************)
EXTENDS Quote, TLC

CONSTANT Defects     \* subset of DefectNames
DefectNames == {"ShortEqByteOffset",      \* splitOption tests byte offset 1 instead of the second character
                "ChoiceOnFlagPanics",     \* Option.Set dereferences a nil value when choices are declared on a flag
                "StaleActive"}            \* Command.Active is not reset when a parser is used for a second ParseArgs
Defect(x) == x \in Defects

---------------------------------------------------------------------------
(* Errors *)
\* aux: what the wording of the message depends on beyond type / option / names / word (ErrText.tla): the variant of
\* "expected argument", the offending text, the option whose conversion failed
NoAux == [k |-> "", a |-> E, o |-> 0]
NoErr == [t |-> "none", opt |-> E, names |-> <<>>, word |-> E, aux |-> NoAux]
Err(t, opt) == [t |-> t, opt |-> opt, names |-> <<>>, word |-> E, aux |-> NoAux]
ErrAux(t, opt, k, a, o) == [t |-> t, opt |-> opt, names |-> <<>>, word |-> E, aux |-> [k |-> k, a |-> a, o |-> o]]
ErrNames(t, names) == [t |-> t, opt |-> E, names |-> names, word |-> E, aux |-> NoAux]
ErrWord(t, word) == [t |-> t, opt |-> E, names |-> <<>>, word |-> word, aux |-> NoAux]
FlagsErrTypes == {"ErrExpectedArgument", "ErrUnknownFlag", "ErrMarshal", "ErrHelp", "ErrNoArgumentForBool",
                  "ErrRequired", "ErrCommandRequired", "ErrUnknownCommand", "ErrInvalidChoice"}
\* "foreign"  : an error value that is not a *flags.Error (positional conversion, handler, Execute)
\* "panic"    : the pinned code panics here (only reachable with a defect switch on)

---------------------------------------------------------------------------
(* Declaration helpers.  d.cmds[1] is the parser itself; parent of the root is 0. *)

RECURSIVE Anc(_, _)
Anc(d, c) == IF c = 0 THEN <<>> ELSE Append(Anc(d, d.cmds[c].parent), c)

SubCmds(d, c) == {k \in 1..Len(d.cmds) : d.cmds[k].parent = c}
Matches(cd, w) == cd.name = w \/ InSeq(cd.aliases, w)
\* lookup.commands is a map filled in declaration order: a later declaration overwrites (command.go:365-371)
Resolve(d, c, w) == LET S == {k \in SubCmds(d, c) : Matches(d.cmds[k], w)} IN
                    IF S = {} THEN 0 ELSE CHOOSE k \in S : \A j \in S : k >= j

\* namespaces of the enclosing groups, outermost first (option.go:96-141)
RECURSIVE NsChain(_, _)
NsChain(d, g) == IF g = 0 THEN <<>> ELSE
                 LET up == NsChain(d, d.groups[g].parent) IN
                 IF d.groups[g].ns = E THEN up ELSE Append(up, d.groups[g].ns)
NsLong(d, od) == IF od.long = E THEN E
                 ELSE FoldRight(LAMBDA ns, acc : ns \o d.nsDelim \o acc, NsChain(d, od.group), od.long)
RECURSIVE EnvNsChain(_, _)
EnvNsChain(d, g) == IF g = 0 THEN <<>> ELSE
                    LET up == EnvNsChain(d, d.groups[g].parent) IN
                    IF d.groups[g].envNs = E THEN up ELSE Append(up, d.groups[g].envNs)
EnvKey(d, od) == IF od.env = E THEN E
                 ELSE FoldRight(LAMBDA ns, acc : ns \o d.envDelim \o acc, EnvNsChain(d, od.group), od.env)

\* Option.String() (option.go:196-217)
OptString(d, od) ==
  IF od.short # 0 THEN
     (IF od.long # E THEN <<DASH, od.short, 44, SPACE, DASH, DASH>> \o NsLong(d, od) ELSE <<DASH, od.short>>)
  ELSE IF od.long # E THEN <<DASH, DASH>> \o NsLong(d, od) ELSE E

\* !canArgument (option.go:304-310): bool, []bool, *bool, func() - unless the field itself is an Unmarshaler.
\* Named deviation: a slice of a bool-kinded Unmarshaler type ([]TB, []*TB) is not itself an Unmarshaler and its
\* element kind is bool, so the code treats it as a flag without argument (every occurrence then fails to convert "").
FlagLike(od) == od.kind \in {"flag", "counter", "ptrflag", "func0", "help"} \/ (od.vtype = "tb" /\ od.kind \in {"slice", "sliceptr"})
CanArgument(od) == ~FlagLike(od)
SignedNumber(od) == od.kind \in {"scalar", "slice", "ptr", "sliceptr"} /\ (IsSignedInt(od.vtype) \/ IsFloat(od.vtype) \/ od.vtype = "duration")
MultiValued(od) == od.kind \in {"slice", "map", "counter", "sliceptr"}

\* zero value of a field as the harness reports it (a sequence of canonical texts)
ZeroText(t) == CASE t = "string" -> E [] t = "cc" -> E [] t = "um" -> E [] t = "us" -> E [] t = "bool" -> S_false [] t = "tb" -> S_false [] t = "duration" -> <<48, 115>> [] OTHER -> <<48>>
ZeroVal(od) == IF od.kind = "scalar" THEN <<ZeroText(od.vtype)>> ELSE IF od.kind = "flag" THEN <<S_false>> ELSE <<>>

\* the built-in help option that ParseArgs adds to every command when HelpFlag is set (parser.go:215-218)
HelpOpt(d, c) == [cmd |-> c, group |-> 0, short |-> 104, long |-> <<104, 101, 108, 112>>, kind |-> "help", vtype |-> "", ktype |-> "string", param |-> "", late |-> FALSE,
                  base |-> 10, optional |-> FALSE, optvals |-> <<>>, required |-> FALSE, defaults |-> <<>>,
                  env |-> E, envDelim |-> E, choices |-> <<>>, hidden |-> FALSE, unquote |-> TRUE,
                  init |-> <<>>, failOn |-> <<>>, validator |-> FALSE,
                  valueName |-> E, mask |-> E, iniName |-> E, noIni |-> FALSE, field |-> <<83, 104, 111, 119, 72, 101, 108, 112>>,     \* ShowHelp
                  desc |-> <<83, 104, 111, 119, SPACE, 116, 104, 105, 115, SPACE, 104, 101, 108, 112, SPACE, 109, 101, 115, 115, 97, 103, 101>>]  \* Show this help message

\* options in scope at command c, in the order the lookup maps are filled: ancestors first, then c
\* (command.go:320-346); within a command in declaration order, the help group last - except for groups that were added
\* to the parser after its first parse (late): the built-in help group exists by then, so they come after it and their names win.
ScopeSeq(opts, d, c) ==
  FoldLeft(LAMBDA acc, a : acc \o SelectSeq([i \in 1..Len(opts) |-> i], LAMBDA o : opts[o].cmd = a /\ ~opts[o].late)
                               \o SelectSeq([i \in 1..Len(opts) |-> i], LAMBDA o : opts[o].cmd = a /\ opts[o].late), <<>>, Anc(d, c))
\* only a scenario that says so (lateGroup, with a first parse) adds the groups marked late after that first parse; in
\* every other scenario they are attached when the parser is built and nothing is late
LateOn(sc) == "lateGroup" \in DOMAIN sc /\ sc.lateGroup /\ sc.hasPrelude
StripLate(os) == [o \in 1..Len(os) |-> [os[o] EXCEPT !.late = FALSE]]

---------------------------------------------------------------------------
(* The state *)

HasOpt(s, f) == InSeq(s.sc.popts, f)

S0(d, sc, ftab) ==
  LET dopts == IF LateOn(sc) THEN d.opts ELSE StripLate(d.opts)
      opts == IF InSeq(sc.popts, "HelpFlag")
              THEN dopts \o [c \in 1..Len(d.cmds) |-> HelpOpt(d, c)] ELSE dopts
      n == Len(opts)
  IN [ d |-> d, sc |-> sc, ftab |-> ftab, opts |-> opts,
       nsLong |-> [o \in 1..n |-> NsLong(d, opts[o])],
       args |-> sc.argv, cur |-> E, retargs |-> <<>>,
       posq |-> [i \in 1..Len(d.cmds[1].args) |-> [c |-> 1, i |-> i]],
       pos |-> [c \in 1..Len(d.cmds) |-> [i \in 1..Len(d.cmds[c].args) |-> d.cmds[c].args[i].init]],
       cmd |-> 1, chain |-> <<1>>, scope |-> ScopeSeq(opts, d, 1),
       val |-> [o \in 1..n |-> opts[o].init],
       isSet |-> [o \in 1..n |-> FALSE], isSetDef |-> [o \in 1..n |-> FALSE],
       prevDef |-> [o \in 1..n |-> FALSE], clearRef |-> [o \in 1..n |-> TRUE],
       events |-> <<>>, err |-> NoErr, perr |-> NoErr, out |-> [stdout |-> 0, stderr |-> 0],
       phase |-> "start", active |-> [c \in 1..Len(d.cmds) |-> 0], cl |-> <<>>, clArg |-> [has |-> FALSE, txt |-> E], clTok |-> E, clName |-> E,
       clEq |-> [has |-> FALSE, txt |-> E], clPos |-> 0,
       grey |-> FALSE, steps |-> 0, nerr |-> 0, ierr |-> [t |-> "none", line |-> 0],
       readName |-> [o \in 1..n |-> E], iniQuote |-> [o \in 1..n |-> FALSE], quoteSeen |-> [o \in 1..n |-> FALSE],
       \* history variables (properties only)
       occ |-> <<>>, role |-> [i \in 1..Len(sc.argv) |-> "pending"], hmod |-> FALSE ]

LookupLong(s, name) == LET k == LastIdx(s.scope, LAMBDA o : s.opts[o].long # E /\ s.nsLong[o] = name) IN
                       IF k = 0 THEN 0 ELSE s.scope[k]
LookupShort(s, r) == LET k == LastIdx(s.scope, LAMBDA o : s.opts[o].short # 0 /\ s.opts[o].short = r) IN
                     IF k = 0 THEN 0 ELSE s.scope[k]

\* position (1-based) in argv of the token just popped; only meaningful while no handler changed the vector
CurPos(s) == Len(s.sc.argv) - Len(s.args)
SetRole(s, i, r) == IF s.hmod \/ i < 1 \/ i > Len(s.role) THEN s ELSE [s EXCEPT !.role[i] = r]
\* mark the k tokens that end at the current position + k - 1 (i.e. current token and following ones)
RECURSIVE SetRoles(_, _, _, _)
SetRoles(s, from, k, r) == IF k = 0 THEN s ELSE SetRoles(SetRole(s, from, r), from + 1, k - 1, r)

---------------------------------------------------------------------------
(* addArgs (parser.go:655-673): positionals first, then the remaining arguments. *)
(* `from` is the argv position of ts[1] (history only).                          *)
RECURSIVE AddArgs(_, _, _)
AddArgs(s, ts, from) ==
  IF ts = <<>> THEN s
  ELSE IF s.posq = <<>> THEN SetRoles([s EXCEPT !.retargs = @ \o ts], from, Len(ts), "rest")
  ELSE LET h == Head(s.posq)
           ad == s.d.cmds[h.c].args[h.i]
           \* a map positional takes one key:value token (a token without a colon is a key with the empty value)
           cv == IF ad.map THEN Okv(IF IndexOf(Head(ts), COLON) = 0 THEN Append(Head(ts), COLON) ELSE Head(ts))
                 ELSE ConvScalar(ad.vtype, ad.base, Head(ts), s.ftab)
       IN IF cv.unspec THEN [s EXCEPT !.grey = TRUE, !.err = Err("foreign", E), !.nerr = @ + 1]
          ELSE IF ~cv.ok THEN [s EXCEPT !.err = Err("foreign", E), !.nerr = @ + 1]     \* raw conversion error, not a *flags.Error
          ELSE AddArgs(SetRole([s EXCEPT !.pos[h.c][h.i] = IF ad.slice THEN Append(@, cv.v)
                                                            \* a map keeps the entries of an earlier parse: this key is (re)bound; shown sorted
                                                            ELSE IF ad.map THEN SortStrs(Append(SelectSeq(@, LAMBDA e : MapKey(e) # MapKey(cv.v)), cv.v))
                                                            ELSE <<cv.v>>,
                                         !.posq = IF ad.slice THEN @ ELSE Tail(@)], from, "positional"),
                       Tail(ts), from + 1)

---------------------------------------------------------------------------
(* Option.Set (option.go:242-283) *)

MapPut(m, k, v) == LET i == FirstIdx(m, LAMBDA p : p[1] = k) IN
                   IF i = 0 THEN Append(m, <<k, v>>) ELSE [m EXCEPT ![i] = <<k, v>>]

\* the callback's behaviour in the harness: it fails (returns an error) iff its converted argument equals failOn (when failOn # <<>>)
CallFails(od, txt) == od.failOn # <<>> /\ od.failOn[1] = txt

\* src: "cli" | "def".  Result: new state, with perr set when the call fails.
ApplySet(s, o, hasVal, txt, src) ==
  LET od == s.opts[o]
      s0 == IF MultiValued(od) /\ s.clearRef[o] THEN [s EXCEPT !.val[o] = <<>>] ELSE s
      s1 == [s0 EXCEPT !.isSet[o] = TRUE, !.prevDef[o] = TRUE, !.clearRef[o] = FALSE, !.perr = NoErr]
      t  == IF hasVal THEN txt ELSE E
      fail(e) == [s1 EXCEPT !.perr = e]
      \* a map entry key:value - the key is converted first, by the key type and with the option's base, then the value (convert.go:287-315)
      \* (a callback whose parameter is a map gets a map of its own holding this one entry, converted the same way)
      mapLike == od.kind = "map" \/ (od.kind = "func1" /\ od.param = "map")
      kconv == IF mapLike THEN ConvScalar(od.ktype, od.base, MapKey(t), s.ftab) ELSE Okv(E)
      conv == IF od.kind \in {"flag", "counter", "ptrflag"} THEN ParseBoolT(t)
              ELSE IF mapLike THEN (IF kconv.ok THEN ConvScalar(od.vtype, od.base, MapVal(t), s.ftab) ELSE kconv)
              ELSE ConvScalar(od.vtype, od.base, t, s.ftab)
      \* what the callback receives, as the harness renders it: a scalar as its text; a slice, map or pointer parameter is a fresh
      \* value per call that holds exactly this occurrence (option.go call: reflect.New of the parameter type, then convert)
      callArg == CASE od.param = "slice" -> <<91>> \o conv.v \o <<93>>
                   [] od.param = "map" -> <<123>> \o kconv.v \o <<COLON>> \o conv.v \o <<125>>
                   [] od.param = "ptr" -> <<38>> \o conv.v
                   [] OTHER -> conv.v
  IN
  IF od.choices # <<>> /\ ~hasVal /\ Defect("ChoiceOnFlagPanics") THEN fail(Err("panic", E))
  ELSE IF od.choices # <<>> /\ hasVal /\ ~InSeq(od.choices, txt) THEN fail([ErrAux("ErrInvalidChoice", OptString(s.d, od), "", txt, o) EXCEPT !.names = od.choices])    \* the message lists every allowed value
  ELSE IF od.kind \in {"help", "func0"} /\ hasVal THEN fail(Err("ErrNoArgumentForBool", OptString(s.d, od)))   \* a value from an INI entry or the environment
  ELSE IF od.kind = "help" THEN fail(Err("ErrHelp", E))
  ELSE IF od.kind = "func0" THEN
       LET s2 == [s1 EXCEPT !.events = Append(@, [k |-> "call", o |-> o, has |-> FALSE, arg |-> E])] IN
       IF CallFails(od, E) THEN [s2 EXCEPT !.perr = Err("foreign", E)] ELSE s2
  ELSE IF conv.unspec THEN [fail(Err("foreign", E)) EXCEPT !.grey = TRUE]
  ELSE IF ~conv.ok THEN
       \* a nil pointer is allocated before its target is converted (convert.go:302-307): it stays allocated, holding the zero value
       IF od.kind \in {"ptr", "ptrflag"} /\ s1.val[o] = <<>> THEN [fail(Err("foreign", E)) EXCEPT !.val[o] = <<ZeroText(IF od.kind = "ptrflag" THEN "bool" ELSE od.vtype)>>]
       ELSE fail(Err("foreign", E))
  ELSE IF od.kind = "func1" THEN
       LET s2 == [s1 EXCEPT !.events = Append(@, [k |-> "call", o |-> o, has |-> TRUE, arg |-> callArg])] IN
       IF CallFails(od, conv.v) THEN [s2 EXCEPT !.perr = Err("foreign", E)] ELSE s2
  ELSE IF od.kind \in {"slice", "counter", "sliceptr"} THEN [s1 EXCEPT !.val[o] = Append(@, conv.v)]
  ELSE IF od.kind = "map" THEN [s1 EXCEPT !.val[o] = MapPut(@, kconv.v, conv.v)]
  ELSE [s1 EXCEPT !.val[o] = <<conv.v>>]

\* foreign errors from Set are wrapped as ErrMarshal naming the flag (parser.go:565-586)
WrapMarshal(s, o) == IF s.perr.t = "foreign" THEN [s EXCEPT !.perr = ErrAux("ErrMarshal", OptString(s.d, s.opts[o]), "", E, o)] ELSE s

RECURSIVE SetEach(_, _, _, _)
SetEach(s, o, vs, src) ==
  IF vs = <<>> THEN s
  ELSE LET s1 == ApplySet(s, o, TRUE, Head(vs), src) IN
       IF s1.perr.t # "none" THEN s1 ELSE SetEach(s1, o, Tail(vs), src)

---------------------------------------------------------------------------
(* parseOption (parser.go:522-572).  hasArg/arg: the inline argument.       *)
(* Result: new state; perr says how the occurrence failed.                  *)
ValidatorRejects(od, a) == od.validator /\ a # E /\ a[1] = 33      \* the harness' ValueValidator refuses texts starting with '!'

NegNumberLike(a) == Len(a) > 1 /\ a[1] = DASH /\ IsDigit(a[2])

\* is token t an option by syntax (optstyle_other.go:19-31)
IsOption(t) == \/ (Len(t) > 1 /\ t[1] = DASH /\ t[2] # DASH)
               \/ (Len(t) > 2 /\ t[1] = DASH /\ t[2] = DASH /\ t[3] # DASH)

ParseOption(s, o, canarg, hasArg, arg) ==
  LET od == s.opts[o]
      ostr == OptString(s.d, od)
      sP == [s EXCEPT !.perr = NoErr]
      note(st, has, a) == [st EXCEPT !.occ = Append(@, [o |-> o, has |-> has, arg |-> a])]
      setWith(st, a) ==          \* unquote, then Set
         LET uq == IF od.unquote THEN UnquoteIfPossible(a) ELSE Okv(a) IN
         IF uq.unspec THEN [st EXCEPT !.grey = TRUE, !.perr = ErrAux("ErrMarshal", ostr, "", E, o)]
         ELSE IF ~uq.ok THEN [st EXCEPT !.perr = ErrAux("ErrMarshal", ostr, "", E, o)]
         ELSE WrapMarshal(ApplySet(note(st, TRUE, uq.v), o, TRUE, uq.v, "cli"), o)
  IN
  IF FlagLike(od) THEN
       IF hasArg THEN [sP EXCEPT !.perr = Err("ErrNoArgumentForBool", ostr)]
       ELSE WrapMarshal(ApplySet(note(sP, FALSE, E), o, FALSE, E, "cli"), o)
  ELSE IF hasArg THEN setWith(sP, arg)
  ELSE IF canarg /\ s.args # <<>> THEN
       LET a == Head(s.args)
           s1 == SetRole([sP EXCEPT !.args = Tail(@), !.cur = a], CurPos(s) + 1, "optarg")
       IN IF od.validator THEN
               (IF ValidatorRejects(od, a) THEN [s1 EXCEPT !.perr = ErrAux("ErrExpectedArgument", E, "validator", a, o)]
                ELSE IF HasOpt(s, "PassDoubleDash") /\ a = <<DASH, DASH>> THEN [s1 EXCEPT !.perr = ErrAux("ErrExpectedArgument", ostr, "dd", a, o)]
                ELSE setWith(s1, a))
          ELSE IF IsOption(a) /\ ~(SignedNumber(od) /\ NegNumberLike(a)) THEN [s1 EXCEPT !.perr = ErrAux("ErrExpectedArgument", ostr, "gotopt", a, o)]
          ELSE IF HasOpt(s, "PassDoubleDash") /\ a = <<DASH, DASH>> THEN [s1 EXCEPT !.perr = ErrAux("ErrExpectedArgument", ostr, "dd", a, o)]
          ELSE setWith(s1, a)
  ELSE IF od.optional THEN
       \* option.empty(), then Set every optional-value (parser.go:551-560)
       LET s1 == [note(sP, FALSE, E) EXCEPT !.val[o] = IF od.kind \in {"func0", "func1"} THEN @ ELSE ZeroVal(od)] IN
       WrapMarshal(SetEach(s1, o, od.optvals, "cli"), o)
  ELSE [sP EXCEPT !.perr = ErrAux("ErrExpectedArgument", ostr, "plain", E, o)]

---------------------------------------------------------------------------
(* What happens to an option token whose handling failed (parser.go:287-308) *)

HandlerResult(s, name, hasArg, arg) ==
  LET h == s.sc.handler
      ev == [k |-> "unk", name |-> name, has |-> hasArg, arg |-> arg, rest |-> s.args]
      s1 == [s EXCEPT !.events = Append(@, ev), !.hmod = TRUE]
  IN CASE h = "identity" -> s1
       [] h = "dropnext" -> [s1 EXCEPT !.args = IF @ = <<>> THEN @ ELSE Tail(@)]
       [] h = "dropall"  -> [s1 EXCEPT !.args = <<>>]                     \* returns a nil slice: nothing is left to parse
       [] h = "inject"   -> [s1 EXCEPT !.args = <<<<120>>>> \o @]          \* injects the plain word "x"
       [] h = "error"    -> [s1 EXCEPT !.err = Err("foreign", E), !.phase = "defaults"]
       [] OTHER -> s1

\* tok: the whole token; name: what the handler is told; inline argument as split at '='
AfterOption(s, tok, tokpos, name, hasArg, arg) ==
  IF s.perr.t = "none" THEN [s EXCEPT !.phase = "loop"]
  ELSE IF s.perr.t # "ErrUnknownFlag" \/ (~HasOpt(s, "IgnoreUnknown") /\ s.sc.handler = "none")
       THEN [s EXCEPT !.err = s.perr, !.perr = NoErr, !.phase = "defaults"]
  ELSE IF HasOpt(s, "IgnoreUnknown")
       THEN [AddArgs([s EXCEPT !.perr = NoErr], <<tok>>, tokpos) EXCEPT !.phase = "loop"]     \* a conversion error is recorded, the loop goes on
  ELSE LET r == HandlerResult([s EXCEPT !.perr = NoErr, !.phase = "loop"], name, hasArg, arg) IN r

---------------------------------------------------------------------------
(* The loop, one token per step; clusters one character per step. *)

Pop(s) == [s EXCEPT !.args = Tail(@), !.cur = Head(s.args)]

\* --- entry of ParseArgs (parser.go:205-234): completion mode branches off before the loop and executes nothing
Enabled_Start(s) == s.phase = "start"
Apply_Start(s) ==
  IF s.sc.completion # E THEN [s EXCEPT !.phase = "done"]
  ELSE [s EXCEPT !.phase = "loop"]

\* --- Terminator (parser.go:247-252)
Enabled_Terminator(s) == s.phase = "loop" /\ s.args # <<>> /\ HasOpt(s, "PassDoubleDash") /\ Head(s.args) = <<DASH, DASH>>
Apply_Terminator(s) ==
  LET s1 == SetRole(Pop(s), CurPos(s) + 1, "terminator") IN
  [AddArgs(s1, s1.args, CurPos(s1) + 1) EXCEPT !.phase = "defaults"]      \* the loop ends; s.args itself is left as it is

NonOpt(s) == s.phase = "loop" /\ s.args # <<>> /\ ~Enabled_Terminator(s) /\ ~IsOption(Head(s.args))

\* --- PassAfterNonOption (parser.go:254-267)
Enabled_PassAfterNonOption(s) == NonOpt(s) /\ HasOpt(s, "PassAfterNonOption") /\ Resolve(s.d, s.cmd, Head(s.args)) = 0
Apply_PassAfterNonOption(s) ==
  LET s1 == Pop(s) IN
  [AddArgs(s1, <<s1.cur>> \o s1.args, CurPos(s1)) EXCEPT !.phase = "defaults"]

\* --- a plain token while positional fields are pending (parser.go:676-678)
Enabled_NonOptPositional(s) == NonOpt(s) /\ ~Enabled_PassAfterNonOption(s) /\ s.posq # <<>>
Apply_NonOptPositional(s) ==
  LET s1 == Pop(s)
      s2 == AddArgs(s1, <<s1.cur>>, CurPos(s1)) IN
  IF s2.nerr # s1.nerr THEN [s2 EXCEPT !.phase = "defaults"] ELSE s2     \* this call failed (an earlier, ignored failure does not count)

CmdLookupOpen(s) == s.posq = <<>> /\ SubCmds(s.d, s.cmd) # {} /\ s.retargs = <<>>

\* --- a command word (parser.go:680-685)
Enabled_NonOptCommand(s) == NonOpt(s) /\ ~Enabled_PassAfterNonOption(s) /\ CmdLookupOpen(s) /\ Resolve(s.d, s.cmd, Head(s.args)) # 0
Apply_NonOptCommand(s) ==
  LET s1 == Pop(s)
      c == Resolve(s.d, s.cmd, s1.cur) IN
  SetRole([s1 EXCEPT !.cmd = c, !.chain = Append(@, c), !.active[s.cmd] = c,
                     !.posq = [i \in 1..Len(s.d.cmds[c].args) |-> [c |-> c, i |-> i]],
                     !.scope = ScopeSeq(s.opts, s.d, c)], CurPos(s1), "command")

\* --- an unrecognised word where a command is required (parser.go:686-689): the word is kept and the loop ends;
\*     the error itself is produced after the loop (DiagnoseCommand), and only if nothing else is wrong
Enabled_NonOptUnknownCommand(s) == NonOpt(s) /\ ~Enabled_PassAfterNonOption(s) /\ CmdLookupOpen(s)
                                   /\ Resolve(s.d, s.cmd, Head(s.args)) = 0 /\ ~s.d.cmds[s.cmd].subOpt
Apply_NonOptUnknownCommand(s) ==
  LET s1 == Pop(s) IN [AddArgs(s1, <<s1.cur>>, CurPos(s1)) EXCEPT !.phase = "defaults"]

\* --- any other plain token
Enabled_NonOptRest(s) == NonOpt(s) /\ ~Enabled_PassAfterNonOption(s) /\ s.posq = <<>>
                         /\ ~Enabled_NonOptCommand(s) /\ ~Enabled_NonOptUnknownCommand(s)
Apply_NonOptRest(s) == LET s1 == Pop(s) IN AddArgs(s1, <<s1.cur>>, CurPos(s1))

OptTok(s) == s.phase = "loop" /\ s.args # <<>> /\ ~Enabled_Terminator(s) /\ IsOption(Head(s.args))

\* --- long option (parser.go:598-608, optstyle_other.go:33-55)
Enabled_LongOpt(s) == OptTok(s) /\ Head(s.args)[2] = DASH
Apply_LongOpt(s) ==
  LET s1 == SetRole(Pop(s), CurPos(s) + 1, "option")
      tok == s1.cur
      body == Drop(tok, 2)
      eq == IndexOf(body, EQ)
      name == IF eq > 0 THEN Take(body, eq - 1) ELSE body
      hasArg == eq > 0
      arg == IF eq > 0 THEN Drop(body, eq) ELSE E
      o == LookupLong(s1, name)
      r == IF o = 0 THEN [s1 EXCEPT !.perr = ErrWord("ErrUnknownFlag", name)]
           ELSE ParseOption(s1, o, ~s1.opts[o].optional, hasArg, arg)
  IN AfterOption(r, tok, CurPos(s1), name, hasArg, arg)

\* --- short option token: decide how it splits, then walk it character by character
Enabled_ShortBegin(s) == OptTok(s) /\ Head(s.args)[2] # DASH
Apply_ShortBegin(s) ==
  LET s1 == SetRole(Pop(s), CurPos(s) + 1, "option")
      tok == s1.cur
      body == Tail(tok)
      \* the '=' of -x=V is the second character; the pinned code tests byte offset 1
      eqSplit == Len(body) >= 2 /\ body[2] = EQ /\ (~Defect("ShortEqByteOffset") \/ ByteLenC(body[1]) = 1)
      name0 == IF eqSplit THEN <<body[1]>> ELSE body                    \* optname after splitOption
      o1 == LookupShort(s1, Sanitize(body[1]))
      concat == ~eqSplit /\ Len(body) > 1 /\ o1 # 0 /\ CanArgument(s1.opts[o1])      \* splitShortConcatArg
      runes == IF eqSplit \/ concat THEN <<body[1]>> ELSE body
      has == eqSplit \/ concat
      arg == IF eqSplit THEN Drop(body, 2) ELSE IF concat THEN Tail(body) ELSE E
  IN [s1 EXCEPT !.phase = "cluster", !.cl = runes, !.clArg = [has |-> has, txt |-> arg],
                !.clTok = tok, !.clName = name0, !.clPos = CurPos(s1),
                !.clEq = [has |-> eqSplit, txt |-> IF eqSplit THEN Drop(body, 2) ELSE E]]

\* --- one character of a short token (parser.go:627-653)
Enabled_ShortRune(s) == s.phase = "cluster" /\ s.cl # <<>>
Apply_ShortRune(s) ==
  LET r == Sanitize(Head(s.cl))
      o == LookupShort(s, r)
      last == Len(s.cl) = 1
      res == IF o = 0 THEN [s EXCEPT !.perr = ErrWord("ErrUnknownFlag", <<r>>)]
             ELSE ParseOption(s, o, last /\ ~s.opts[o].optional, s.clArg.has, s.clArg.txt)
      res1 == [res EXCEPT !.cl = Tail(s.cl), !.clArg = [has |-> FALSE, txt |-> E]]
  IN IF res1.perr.t # "none" THEN AfterOption([res1 EXCEPT !.cl = <<>>], s.clTok, s.clPos, s.clName, s.clEq.has, s.clEq.txt)
     ELSE IF res1.cl = <<>> THEN [res1 EXCEPT !.phase = "loop"]
     ELSE res1

\* --- end of the vector
Enabled_LoopEnd(s) == s.phase = "loop" /\ s.args = <<>>
Apply_LoopEnd(s) == [s EXCEPT !.phase = "defaults"]

---------------------------------------------------------------------------
(* After the loop *)

EnvLookup(s, key) == LET k == LastIdx(s.sc.env, LAMBDA kv : kv.k = key) IN
                     IF k = 0 THEN [set |-> FALSE, v |-> E] ELSE [set |-> TRUE, v |-> s.sc.env[k].v]

\* strings.Split(value, delim) for a delimiter of any length >= 1
RECURSIVE SplitStr(_, _, _)
SplitStr(v, delim, cur) ==
  IF v = E THEN <<cur>>
  ELSE IF HasPrefix(v, delim) THEN <<cur>> \o SplitStr(Drop(v, Len(delim)), delim, E)
  ELSE SplitStr(Tail(v), delim, Append(cur, Head(v)))

\* clearDefault for one option (option.go:328-373)
DefaultOne(s, o) ==
  LET od == s.opts[o] IN
  IF s.prevDef[o] THEN s
  ELSE LET key == EnvKey(s.d, od)
           ev == IF key = E THEN [set |-> FALSE, v |-> E] ELSE EnvLookup(s, key)
           used == IF ev.set THEN (IF od.envDelim # E THEN SplitStr(ev.v, od.envDelim, E) ELSE <<ev.v>>) ELSE od.defaults
           s1 == [s EXCEPT !.isSetDef[o] = TRUE]
       IN IF used = <<>> THEN s1
          ELSE LET s2 == SetEach([s1 EXCEPT !.val[o] = IF od.kind \in {"func0", "func1", "help"} THEN @ ELSE ZeroVal(od), !.perr = NoErr],
                                 o, used, "def")
                   s3 == WrapMarshal(s2, o) IN
               IF s3.perr.t # "none" THEN [s3 EXCEPT !.err = s3.perr, !.perr = NoErr]     \* the last failing option's error is kept
               ELSE [s3 EXCEPT !.prevDef[o] = FALSE]

\* eachOption order (command.go:277-297): a command, its groups, then its sub-commands, recursively
RECURSIVE CmdPreOrder(_, _)
CmdPreOrder(d, c) == <<c>> \o FoldLeft(LAMBDA acc, k : acc \o CmdPreOrder(d, k), <<>>,
                                        SelectSeq([i \in 1..Len(d.cmds) |-> i], LAMBDA k : d.cmds[k].parent = c))
AllOptsOrder(s) == FoldLeft(LAMBDA acc, c : acc \o SelectSeq([i \in 1..Len(s.opts) |-> i], LAMBDA o : s.opts[o].cmd = c),
                            <<>>, CmdPreOrder(s.d, 1))

Enabled_ApplyDefaults(s) == s.phase = "defaults"
Apply_ApplyDefaults(s) ==
  IF s.err.t # "none" THEN [s EXCEPT !.phase = "finish"]
  ELSE [FoldLeft(DefaultOne, s, AllOptsOrder(s)) EXCEPT !.phase = "required"]

\* checkRequired (parser.go:379-477)
\* the chain the required check walks: parser -> Active -> Active ... (parser.go:384-394).  On a parser that is used
\* for the first time this is s.chain; see ParseArgsCall for a second use
RECURSIVE ActiveChain(_, _)
ActiveChain(s, c) == IF s.active[c] = 0 THEN <<c>> ELSE <<c>> \o ActiveChain(s, s.active[c])
MissingOpts(s) == SelectSeq(FoldLeft(LAMBDA acc, c : acc \o SelectSeq([i \in 1..Len(s.opts) |-> i], LAMBDA o : s.opts[o].cmd = c),
                                      <<>>, ActiveChain(s, 1)),
                            LAMBDA o : s.opts[o].required /\ ~s.isSet[o])
UnmetArgs(s) ==
  SelectSeq(s.posq, LAMBDA h :
     LET ad == s.d.cmds[h.c].args[h.i]
         argReq == (~ad.slice /\ s.d.cmds[s.cmd].argsReq) \/ ad.req # -1 \/ ad.reqMax # -1
         n == Len(s.pos[h.c][h.i])
     IN argReq /\ (IF ad.slice THEN (n < ad.req \/ (ad.reqMax # -1 /\ n > ad.reqMax)) ELSE TRUE))

Enabled_CheckRequired(s) == s.phase = "required"
Apply_CheckRequired(s) ==
  LET miss == MissingOpts(s)
      unmet == UnmetArgs(s) IN
  IF miss # <<>> THEN [s EXCEPT !.err = ErrNames("ErrRequired", [i \in 1..Len(miss) |-> OptString(s.d, s.opts[miss[i]])]), !.phase = "finish"]
  ELSE IF unmet # <<>> THEN [s EXCEPT !.err = ErrNames("ErrRequired", [i \in 1..Len(unmet) |-> s.d.cmds[unmet[i].c].args[unmet[i].i].name]), !.phase = "finish"]
  ELSE [s EXCEPT !.phase = "finish"]

\* parser.go:325-351: diagnosis of the command, dispatch, printing
Enabled_DiagnoseCommand(s) == s.phase = "finish" /\ s.err.t = "none" /\ SubCmds(s.d, s.cmd) # {} /\ ~s.d.cmds[s.cmd].subOpt
Apply_DiagnoseCommand(s) ==
  [s EXCEPT !.err = IF s.retargs # <<>> THEN ErrWord("ErrUnknownCommand", s.retargs[1]) ELSE Err("ErrCommandRequired", E),
            !.phase = "return"]

Enabled_Dispatch(s) == s.phase = "finish" /\ s.err.t = "none" /\ ~Enabled_DiagnoseCommand(s)
Apply_Dispatch(s) ==
  LET cd == s.d.cmds[s.cmd]
      call == cd.exec \/ s.sc.cmdHandler
      ev == [k |-> "exec", c |-> IF cd.exec THEN s.cmd ELSE 0, args |-> s.retargs, viaHandler |-> s.sc.cmdHandler]
  IN IF ~call THEN [s EXCEPT !.phase = "return"]
     ELSE [s EXCEPT !.events = Append(@, ev), !.err = IF s.sc.execErr THEN Err("foreign", E) ELSE NoErr, !.phase = "return"]

Enabled_SkipToReturn(s) == s.phase = "finish" /\ s.err.t # "none"
Apply_SkipToReturn(s) == [s EXCEPT !.phase = "return"]

Enabled_Return(s) == s.phase = "return"
Apply_Return(s) ==
  IF s.err.t # "none" /\ HasOpt(s, "PrintErrors")
  THEN [s EXCEPT !.out = IF s.err.t = "ErrHelp" THEN [stdout |-> 1, stderr |-> 0] ELSE [stdout |-> 0, stderr |-> 1], !.phase = "done"]
  ELSE [s EXCEPT !.phase = "done"]

---------------------------------------------------------------------------
ActionNames == <<"Start", "Terminator", "PassAfterNonOption", "NonOptPositional", "NonOptCommand", "NonOptUnknownCommand",
                 "NonOptRest", "LongOpt", "ShortBegin", "ShortRune", "LoopEnd", "ApplyDefaults", "CheckRequired",
                 "DiagnoseCommand", "Dispatch", "SkipToReturn", "Return">>

EnabledA(a, s) ==
  CASE a = "Start" -> Enabled_Start(s) [] a = "Terminator" -> Enabled_Terminator(s) [] a = "PassAfterNonOption" -> Enabled_PassAfterNonOption(s)
    [] a = "NonOptPositional" -> Enabled_NonOptPositional(s) [] a = "NonOptCommand" -> Enabled_NonOptCommand(s)
    [] a = "NonOptUnknownCommand" -> Enabled_NonOptUnknownCommand(s) [] a = "NonOptRest" -> Enabled_NonOptRest(s)
    [] a = "LongOpt" -> Enabled_LongOpt(s) [] a = "ShortBegin" -> Enabled_ShortBegin(s) [] a = "ShortRune" -> Enabled_ShortRune(s)
    [] a = "LoopEnd" -> Enabled_LoopEnd(s) [] a = "ApplyDefaults" -> Enabled_ApplyDefaults(s)
    [] a = "CheckRequired" -> Enabled_CheckRequired(s) [] a = "DiagnoseCommand" -> Enabled_DiagnoseCommand(s)
    [] a = "Dispatch" -> Enabled_Dispatch(s) [] a = "SkipToReturn" -> Enabled_SkipToReturn(s) [] a = "Return" -> Enabled_Return(s)

ApplyA(a, s) ==
  CASE a = "Start" -> Apply_Start(s) [] a = "Terminator" -> Apply_Terminator(s) [] a = "PassAfterNonOption" -> Apply_PassAfterNonOption(s)
    [] a = "NonOptPositional" -> Apply_NonOptPositional(s) [] a = "NonOptCommand" -> Apply_NonOptCommand(s)
    [] a = "NonOptUnknownCommand" -> Apply_NonOptUnknownCommand(s) [] a = "NonOptRest" -> Apply_NonOptRest(s)
    [] a = "LongOpt" -> Apply_LongOpt(s) [] a = "ShortBegin" -> Apply_ShortBegin(s) [] a = "ShortRune" -> Apply_ShortRune(s)
    [] a = "LoopEnd" -> Apply_LoopEnd(s) [] a = "ApplyDefaults" -> Apply_ApplyDefaults(s)
    [] a = "CheckRequired" -> Apply_CheckRequired(s) [] a = "DiagnoseCommand" -> Apply_DiagnoseCommand(s)
    [] a = "Dispatch" -> Apply_Dispatch(s) [] a = "SkipToReturn" -> Apply_SkipToReturn(s) [] a = "Return" -> Apply_Return(s)

EnabledSet(s) == {i \in 1..Len(ActionNames) : EnabledA(ActionNames[i], s)}

\* A ParseArgs call on a parser that already lived through earlier calls: the cells are kept (values, isSet,
\* preventDefault), the loop state is fresh.  Intended: the active chain starts afresh too; the pinned code keeps the
\* Active pointers of the earlier parse (switch StaleActive), which the required check and the help text then follow.
ReuseState(s, argv) ==
  LET n == Len(s.opts) IN
  [s EXCEPT !.sc.argv = argv, !.args = argv, !.cur = E, !.retargs = <<>>,
            !.posq = [i \in 1..Len(s.d.cmds[1].args) |-> [c |-> 1, i |-> i]],
            !.cmd = 1, !.chain = <<1>>, !.scope = ScopeSeq(s.opts, s.d, 1),
            !.active = IF Defect("StaleActive") THEN @ ELSE [c \in 1..Len(s.d.cmds) |-> 0],
            !.clearRef = [o \in 1..n |-> TRUE],
            !.events = <<>>, !.err = NoErr, !.perr = NoErr, !.out = [stdout |-> 0, stderr |-> 0],
            !.phase = "start", !.cl = <<>>, !.steps = 0, !.nerr = 0,
            !.occ = <<>>, !.role = [i \in 1..Len(argv) |-> "pending"], !.hmod = FALSE]

\* A group added to the parser (Parser.AddGroup) between two ParseArgs calls: while the earlier call runs its options do not
\* exist - no name reaches them, they have no default, no environment key and are not required - and when the later call
\* starts they are as fresh as on a new parser.  The option list keeps its length, so indices mean the same in both calls.
MaskLate(s) ==
  [s EXCEPT !.opts = [o \in 1..Len(s.opts) |-> IF s.opts[o].late
                                              THEN [s.opts[o] EXCEPT !.long = E, !.short = 0, !.required = FALSE, !.defaults = <<>>, !.env = E]
                                              ELSE s.opts[o]],
            !.nsLong = [o \in 1..Len(s.opts) |-> IF s.opts[o].late THEN E ELSE s.nsLong[o]]]
UnmaskLate(s, s0) ==
  [s EXCEPT !.opts = s0.opts, !.nsLong = s0.nsLong,
            !.isSetDef = [o \in 1..Len(s0.opts) |-> IF s0.opts[o].late THEN FALSE ELSE s.isSetDef[o]]]

\* the loop is deterministic: exactly one action is enabled until the parse is done
Step(s) == LET i == CHOOSE i \in EnabledSet(s) : TRUE IN [ApplyA(ActionNames[i], s) EXCEPT !.steps = @ + 1]
RECURSIVE Run(_)
Run(s) == IF s.phase = "done" THEN s ELSE Run(Step(s))
ParseArgsCall(s, argv) == Run(ReuseState(s, argv))

=============================================================================
