----------------------------- MODULE Completion -----------------------------
(***************************************************************************)
(* C18: completion (completion.go:167-289).                                *)
(*                                                                         *)
(*  - Walk / WalkItems: the prefix walk and the candidate computation as   *)
(*    the code does them (completion re-implements the argument walk       *)
(*    separately from the parser);                                         *)
(*  - Context / DeclItems: the same answer stated declaratively from the   *)
(*    context that the parser itself (ArgParse.tla) reaches on the already *)
(*    typed words.                                                         *)
(* The cross-module invariant (MC_Completion) is that the two agree on     *)
(* every valid prefix; conformance compares the real items with both.      *)
(*                                                                         *)
(* Defect switch "CompletionEntersCommandAfterArg": the walk switches to a *)
(* sub-command after a plain argument was met, where the parser no longer  *)
(* does (parser.go:680).                                                   *)
(***************************************************************************)
EXTENDS ArgParse

\* the completions the harness' Completer type (CC) offers, in its own order
CCWords == << <<97, 108, 112, 104, 97>>, <<97, 108, 112, 115>>, <<98, 101, 116, 97>>, <<98, 101, SPACE, 116, 97>>, <<103, 97, 109, 109, 97>> >>
              \* alpha alps beta "be ta" gamma
HasCompleter(vtype) == vtype = "cc"
ValueItems(vtype, prefix, match) ==
  IF ~HasCompleter(vtype) THEN <<>>
  ELSE LET ws == SelectSeq(CCWords, LAMBDA w : HasPrefix(w, match)) IN [i \in 1..Len(ws) |-> prefix \o ws[i]]

SortItems(items) == SortStrs(items)

StartsOption(t) == t # E /\ t[1] = DASH

---------------------------------------------------------------------------
(* the walk of the code.  cs = [cmd, posq, scope, opt, plain] *)

CInit(s0) == [cmd |-> 1, posq |-> s0.posq, scope |-> s0.scope, opt |-> 0, plain |-> FALSE, stop |-> FALSE, skip |-> FALSE]
SubCmdSeqC(d, c) == SelectSeq([k \in 1..Len(d.cmds) |-> k], LAMBDA k : d.cmds[k].parent = c)

CLookupLong(s0, cs, name) == LookupLong([s0 EXCEPT !.scope = cs.scope], name)
CLookupShort(s0, cs, r) == LookupShort([s0 EXCEPT !.scope = cs.scope], r)

SkipPositional(cs, n) == [cs EXCEPT !.posq = IF n >= Len(cs.posq) THEN <<>> ELSE Drop(cs.posq, n)]

\* one already-typed word; rest = number of words after it (including the partial one)
WalkWord(s0, cs, w, restN, nextIsLast) ==
  IF cs.stop THEN cs
  ELSE IF HasOpt(s0, "PassDoubleDash") /\ w = <<DASH, DASH>> THEN [SkipPositional(cs, restN - 1) EXCEPT !.opt = 0, !.stop = TRUE]
  ELSE IF IsOption(w) THEN
       LET islong == w[2] = DASH
           body == IF islong THEN Drop(w, 2) ELSE Tail(w)
           eq == IndexOf(body, EQ)
           hasArg == IF islong THEN eq > 0 ELSE (Len(body) >= 2 /\ body[2] = EQ)
       IN IF hasArg THEN cs
          ELSE LET \* short: walk the characters; stop at the first unknown one; an argument-taking first character with more
                   \* behind it has its argument attached
                   firstO == IF islong THEN 0 ELSE CLookupShort(s0, cs, Sanitize(body[1]))
                   concat == ~islong /\ firstO # 0 /\ CanArgument(s0.opts[firstO]) /\ Len(body) > 1
                   unknownAt == IF islong THEN 0 ELSE FirstIdx([i \in 1..Len(body) |-> i], LAMBDA i : CLookupShort(s0, cs, Sanitize(body[i])) = 0)
                   o == IF islong THEN CLookupLong(s0, cs, body)
                        ELSE IF concat THEN firstO
                        ELSE IF unknownAt # 0 THEN 0
                        ELSE CLookupShort(s0, cs, Sanitize(body[Len(body)]))
                   canarg == ~concat
               IN IF o = 0 /\ HasOpt(s0, "PassAfterNonOption") THEN [SkipPositional(cs, restN - 1) EXCEPT !.opt = 0, !.stop = TRUE]
                  ELSE IF o # 0 /\ CanArgument(s0.opts[o]) /\ ~s0.opts[o].optional /\ canarg THEN
                       (IF nextIsLast THEN [cs EXCEPT !.opt = o] ELSE [cs EXCEPT !.skip = TRUE])
                  ELSE cs
  ELSE \* a plain word
       IF cs.posq # <<>> THEN
            LET h == Head(cs.posq) IN
            [cs EXCEPT !.posq = IF s0.d.cmds[h.c].args[h.i].slice THEN @ ELSE Tail(@), !.opt = 0]
       ELSE LET c == Resolve(s0.d, cs.cmd, w) IN
            IF c # 0 /\ (Defect("CompletionEntersCommandAfterArg") \/ ~cs.plain) THEN
                 [cs EXCEPT !.cmd = c, !.posq = [i \in 1..Len(s0.d.cmds[c].args) |-> [c |-> c, i |-> i]],
                            !.scope = ScopeSeq(s0.opts, s0.d, c), !.opt = 0]
            ELSE [cs EXCEPT !.plain = TRUE, !.opt = 0]

\* fold over the already typed words; a word that is the separate argument of the previous option is skipped
Walk(s0, words) ==
  LET n == Len(words)
      step(acc, i) ==
        IF acc.skip THEN [acc EXCEPT !.skip = FALSE]
        ELSE WalkWord(s0, acc, words[i], n - i, i = n - 1)
  IN FoldLeft(step, CInit(s0), [i \in 1..(n - 1) |-> i])

VisibleLongs(s0, cs) ==
  \* the lookup map: one entry per name, the innermost declaration
  LET names == {s0.nsLong[o] : o \in {o \in SeqToSet(cs.scope) : s0.opts[o].long # E}} IN
  {nm \in names : ~s0.opts[CLookupLong(s0, cs, nm)].hidden}
VisibleShorts(s0, cs) ==
  LET rs == {s0.opts[o].short : o \in {o \in SeqToSet(cs.scope) : s0.opts[o].short # 0}} IN
  {r \in rs : ~s0.opts[CLookupShort(s0, cs, r)].hidden}

OptionNameItems(s0, cs, match, short) ==
  IF short /\ match # E THEN <<(<<DASH>> \o match)>>
  ELSE LET longs == {nm \in VisibleLongs(s0, cs) : HasPrefix(nm, match)}
           \* a short name is listed only when its option was not already listed by long name
           listed == {s0.opts[CLookupLong(s0, cs, nm)].short : nm \in longs}
           shorts == IF short THEN {r \in VisibleShorts(s0, cs) : r \notin listed} ELSE {} IN
       SetToSeq({<<DASH, DASH>> \o nm : nm \in longs} \cup {<<DASH, r>> : r \in shorts})

CommandItems(s0, cs, match) ==
  LET subs == SelectSeq(SubCmdSeqC(s0.d, cs.cmd), LAMBDA k : ~s0.d.cmds[k].hidden /\ HasPrefix(s0.d.cmds[k].name, match)) IN
  [i \in 1..Len(subs) |-> s0.d.cmds[subs[i]].name]

ValueTypeOfOpt(od) == od.vtype
LastWordItems(s0, cs, last) ==
  IF cs.opt # 0 THEN ValueItems(s0.opts[cs.opt].vtype, E, last)
  ELSE IF StartsOption(last) THEN
       LET islong == Len(last) >= 2 /\ last[2] = DASH
           body == IF islong THEN Drop(last, 2) ELSE Tail(last)
           eq == IndexOf(body, EQ)
           hasArg == IF islong THEN eq > 0 ELSE (Len(body) >= 2 /\ body[2] = EQ)
       IN IF ~hasArg /\ ~islong THEN
               LET o == IF body = E THEN 0 ELSE CLookupShort(s0, cs, Sanitize(body[1])) IN
               IF o # 0 /\ CanArgument(s0.opts[o]) THEN ValueItems(s0.opts[o].vtype, <<DASH, body[1]>>, Tail(body))
               ELSE OptionNameItems(s0, cs, body, TRUE)
          ELSE IF hasArg THEN
               LET name == IF islong THEN Take(body, eq - 1) ELSE <<body[1]>>
                   arg == IF islong THEN Drop(body, eq) ELSE Drop(body, 2)
                   o == IF islong THEN CLookupLong(s0, cs, name) ELSE CLookupShort(s0, cs, Sanitize(body[1])) IN
               IF o = 0 THEN <<>> ELSE ValueItems(s0.opts[o].vtype, (IF islong THEN <<DASH, DASH>> ELSE <<DASH>>) \o name \o <<EQ>>, arg)
          ELSE OptionNameItems(s0, cs, body, FALSE)
  ELSE IF cs.posq # <<>> THEN
       LET h == Head(cs.posq) IN ValueItems(s0.d.cmds[h.c].args[h.i].vtype, E, last)
  ELSE IF SubCmds(s0.d, cs.cmd) # {} /\ (Defect("CompletionEntersCommandAfterArg") \/ ~cs.plain) THEN CommandItems(s0, cs, last)
  ELSE <<>>

\* what the code answers (sorted by item)
WalkItems(s0, words) ==
  LET ws == IF words = <<>> THEN <<E>> ELSE words IN
  SortItems(LastWordItems(s0, Walk(s0, ws), ws[Len(ws)]))

---------------------------------------------------------------------------
(* the declarative side: the context the parser reaches on the already typed words *)

\* run the parser's loop only (no defaults, no required check): the state when the words are exhausted or the loop ended
RECURSIVE LoopOnly(_)
LoopOnly(s) == IF s.phase \in {"start", "loop", "cluster"} THEN LoopOnly(Step(s)) ELSE s

\* the option that the last typed word leaves waiting for a separate argument (0 if none), given the parser state before it
PendingOption(sp, w) ==
  IF ~IsOption(w) THEN 0
  ELSE LET islong == w[2] = DASH
           body == IF islong THEN Drop(w, 2) ELSE Tail(w) IN
       IF islong THEN (IF IndexOf(body, EQ) > 0 THEN 0
                       ELSE LET o == LookupLong(sp, body) IN IF o # 0 /\ CanArgument(sp.opts[o]) /\ ~sp.opts[o].optional THEN o ELSE 0)
       ELSE IF Len(body) >= 2 /\ body[2] = EQ THEN 0
       ELSE LET o1 == LookupShort(sp, Sanitize(body[1])) IN
            IF o1 # 0 /\ CanArgument(sp.opts[o1]) /\ Len(body) > 1 THEN 0                      \* -xVALUE
            ELSE IF \E i \in 1..(Len(body) - 1) : LET oi == LookupShort(sp, Sanitize(body[i])) IN oi = 0 \/ CanArgument(sp.opts[oi]) THEN 0
            ELSE LET ol == LookupShort(sp, Sanitize(body[Len(body)])) IN
                 IF ol # 0 /\ CanArgument(sp.opts[ol]) /\ ~sp.opts[ol].optional THEN ol ELSE 0

\* Context: [valid, grey, s (parser state after the typed words), pending]
Context(s0, words) ==
  LET n == Len(words)
      typed == Take(words, n - 1)
      \* first try: all typed words but the last, to see whether the last typed word leaves an option waiting
      sBefore == IF n >= 2 THEN LoopOnly([s0 EXCEPT !.sc.argv = Take(words, n - 2), !.args = Take(words, n - 2), !.role = [i \in 1..(n - 2) |-> "pending"]]) ELSE s0
      pend == IF n >= 2 /\ sBefore.phase = "defaults" /\ sBefore.err.t = "none" /\ sBefore.args = <<>> /\ ~InSeq(sBefore.role, "terminator")
                 /\ ~(HasOpt(s0, "PassAfterNonOption") /\ InSeq(sBefore.role, "rest"))
              THEN PendingOption(sBefore, words[n - 1]) ELSE 0
      sAll == IF pend # 0 THEN sBefore
              ELSE LoopOnly([s0 EXCEPT !.sc.argv = typed, !.args = typed, !.role = [i \in 1..(n - 1) |-> "pending"]])
  IN [valid |-> /\ sAll.err.t = "none" /\ sAll.nerr = 0 /\ sAll.phase = "defaults"
                \* an unrecognised word where a command is required makes the prefix invalid
                /\ ~(SubCmds(sAll.d, sAll.cmd) # {} /\ ~sAll.d.cmds[sAll.cmd].subOpt /\ sAll.retargs # <<>>),
      \* after the `--` terminator the code completes a plain last word for the next pending positional exactly as the parser
      \* binds it, provided that positional is not a slice (past a slice positional, and for option-looking or command words after
      \* the terminator, the code's walk and the parser part ways: no verdict there)
      grey |-> sAll.grey \/ sAll.hmod
               \/ (InSeq(sAll.role, "terminator")
                   /\ ~(~StartsOption(words[n]) /\ sAll.posq # <<>> /\ ~sAll.d.cmds[Head(sAll.posq).c].args[Head(sAll.posq).i].slice))
               \/ (HasOpt(s0, "PassAfterNonOption") /\ (InSeq(sAll.role, "rest") \/ InSeq(sAll.role, "positional")))
               \/ (HasOpt(s0, "IgnoreUnknown") /\ \E i \in 1..Len(sAll.role) : IsOption(typed[i]) /\ sAll.role[i] \in {"rest", "positional"}),
      s |-> sAll, pending |-> pend]

\* the candidates, from the parser's context
DeclItems(s0, words) ==
  LET ws == IF words = <<>> THEN <<E>> ELSE words
      ctx == Context(s0, ws)
      s == ctx.s
      cs == [cmd |-> s.cmd, posq |-> s.posq, scope |-> s.scope, opt |-> ctx.pending,
             \* the parser looks a word up among the sub-commands only before any remaining argument
             plain |-> s.retargs # <<>>, stop |-> FALSE, skip |-> FALSE]
      last == ws[Len(ws)]
  IN IF cs.opt = 0 /\ ~StartsOption(last) /\ cs.posq = <<>> /\ s.retargs # <<>> THEN <<>>        \* no command is accepted after a plain argument
     ELSE SortItems(LastWordItems(s0, cs, last))
=============================================================================
