----------------------------- MODULE Trace_Help -----------------------------
(***************************************************************************)
(* Trace validation for C16 / C17 (and the help part of C15): each record  *)
(* is a declaration, an active chain (command words), a terminal width and *)
(* the text the real generator produced.  The verdict predicates are       *)
(* evaluated on the REAL lines; the specification supplies what must be    *)
(* there (rows, their text, the description column).  Equality with the    *)
(* specification's own layout is a fidelity figure (DRIFT), not a verdict. *)
(***************************************************************************)
EXTENDS Man, FTab, Json

VARIABLE l
TraceRecs == ndJsonDeserialize("trace.ndjson")
Decls == ndJsonDeserialize("decls.ndjson")
Props == {"C16", "C17", "C15", "C04", "DRIFT"}
B(x) == IF x THEN 1 ELSE 0

Scn(rec, argv) == [decl |-> rec.decl, popts |-> rec.popts, handler |-> "none", cmdHandler |-> FALSE, execErr |-> FALSE, env |-> <<>>, argv |-> argv,
                   completion |-> E, hasPrelude |-> FALSE, prelude |-> <<>>]

Judge(rec) ==
  LET o == rec.obs
      argv == IF rec.kind = "errhelp" THEN Append(rec.words, <<DASH, DASH, 104, 101, 108, 112>>) ELSE rec.words
      s0 == S0(Decls[rec.decl], Scn(rec, argv), FTab)
      \* an earlier parse of the same parser (preWords) leaves nothing behind that the help of this one may show
      f == IF "preWords" \in DOMAIN rec /\ rec.preWords # <<>>
           THEN Run(ReuseState(Run(S0(Decls[rec.decl], Scn(rec, rec.preWords), FTab)), argv))
           ELSE Run(s0)
      chain == f.chain
      pre == [k \in 1..Len(s0.opts) |-> IF k <= Len(s0.d.opts) THEN s0.opts[k].init ELSE <<>>]
      crashed == o.panic \/ o.timeout
      isHelp == rec.kind \in {"help", "errhelp", "rehelp"}      \* "rehelp": written a second time on one parser after options were hidden and shown
                                                                   \* again and the terminal was resized - the text is a function of the parser as it is now
      spec == HelpLines(s0, chain, rec.width, pre)
      okKind == rec.kind # "errhelp" \/ f.err.t = "ErrHelp"
  IN [C17 |-> (isHelp /\ okKind) => (~crashed /\ LayoutOK(o.lines, s0, chain, rec.width, pre)),
      C16 |-> IF crashed THEN TRUE              \* a crash is C17's finding
              ELSE IF isHelp THEN (okKind => ContentOK(o.lines, s0, chain, pre))
              ELSE ManOK(o.lines, s0),
      C15 |-> crashed \/ o.distinct = 1,
      \* C04 for help requests: ParseArgs with --help returns normally, and with the typed error the specification says
      C04 |-> (rec.kind = "errhelp") => (~crashed /\ (f.err.t = "ErrHelp" => o.errType = "ErrHelp")),
      DRIFT |-> crashed \/ (IF isHelp THEN (~okKind \/ o.lines = spec \/ HasPanic(spec)) ELSE ManExact(o.lines, s0)),
      help |-> B(isHelp), man |-> B(~isHelp), deep |-> B(Len(chain) > 1), narrow |-> B(rec.width > 0 /\ rec.width < 40),
      wide |-> B(rec.width >= 100), panics |-> B(crashed), specpanic |-> B(isHelp /\ HasPanic(spec))]

StatKeys == {"help", "man", "deep", "narrow", "wide", "panics", "specpanic"}
Init == l = 1 /\ TLCSet(1, [p \in Props |-> {}]) /\ TLCSet(2, [k \in StatKeys |-> 0]) /\ TLCSet(3, 0)
Next == l < Len(TraceRecs) /\ l' = l + 1
Spec == Init /\ [][Next]_l
JudgeRecord ==
  (l <= Len(TraceRecs)) =>
    LET j == Judge(TraceRecs[l]) IN
    /\ TLCSet(1, [p \in Props |-> IF j[p] THEN TLCGet(1)[p] ELSE TLCGet(1)[p] \cup {l}])
    /\ TLCSet(2, [k \in StatKeys |-> TLCGet(2)[k] + j[k]])
    /\ TLCSet(3, TLCGet(3) + 1)
Post == /\ PrintT(<<"VERIF-CONSUMED", TLCGet(3), Len(TraceRecs)>>)
        /\ PrintT(<<"VERIF-STAT", TLCGet(2)>>)
        /\ \A p \in Props : PrintT(<<"VERIF-BAD", p, TLCGet(1)[p]>>)
=============================================================================
