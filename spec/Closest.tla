------------------------------ MODULE Closest ------------------------------
(***************************************************************************)
(* C20: the diagnosis of an unknown / missing command (closest.go,         *)
(* parser.go:479-520).  Levenshtein distance over characters, computed     *)
(* row by row (TLC does not memoise recursive function definitions).       *)
(***************************************************************************)
EXTENDS Strs, TLC

CONSTANT Defects
Defect(x) == x \in Defects
\* "LevFirstRow":  the pinned code initialises dists[0][j] only for j < len(t) and indexes by byte offset

Min2(a, b) == IF a < b THEN a ELSE b
Min3(a, b, c) == Min2(a, Min2(b, c))

\* one row of the dynamic programme: prev is row i (length |t|+1), result row i+1
NextRow(prev, sc, t, i) ==
  FoldLeft(LAMBDA row, j :
              Append(row, IF sc = t[j] THEN prev[j]
                          ELSE 1 + Min3(prev[j], prev[j + 1], row[j])),
           <<i>>, [j \in 1..Len(t) |-> j])

Lev(s, t) ==
  IF s = E THEN Len(t) ELSE IF t = E THEN Len(s)
  ELSE LET row0 == [j \in 1..(Len(t) + 1) |-> j - 1]
           last == FoldLeft(LAMBDA acc, i : [row |-> NextRow(acc.row, s[i], t, i), i |-> i], [row |-> row0, i |-> 0],
                            [i \in 1..Len(s) |-> i])
       IN last.row[Len(t) + 1]

\* the pinned code's distance, for ASCII strings (first row: last cell left at 0)
LevPinned(s, t) ==
  IF s = E THEN Len(t) ELSE IF t = E THEN Len(s)
  ELSE LET row0 == [j \in 1..(Len(t) + 1) |-> IF j = Len(t) + 1 THEN 0 ELSE j - 1]
           last == FoldLeft(LAMBDA acc, i : [row |-> NextRow(acc.row, s[i], t, i), i |-> i], [row |-> row0, i |-> 0],
                            [i \in 1..Len(s) |-> i])
       IN last.row[Len(t) + 1]

Dist(s, t) == IF Defect("LevFirstRow") THEN LevPinned(s, t) ELSE Lev(s, t)

\* brute-force definition (for cross-checking Lev on short strings only)
RECURSIVE LevRec(_, _)
LevRec(s, t) ==
  IF s = E THEN Len(t) ELSE IF t = E THEN Len(s)
  ELSE IF s[1] = t[1] THEN LevRec(Tail(s), Tail(t))
  ELSE 1 + Min3(LevRec(Tail(s), t), LevRec(s, Tail(t)), LevRec(Tail(s), Tail(t)))

---------------------------------------------------------------------------
(* The diagnosis.  names: the visible command names (any order).  word: the given word, or absent.   *)
(* Outcome: [type, kind, names]  kind "suggest" -> names = <<the suggestion>>;  "enum" -> the sorted *)
(* visible names; "none" -> no visible command to mention.                                           *)

Sorted(names) == SortStrs(names)
MinDist(word, names) == LET ds == {Dist(word, names[i]) : i \in 1..Len(names)} IN CHOOSE m \in ds : \A x \in ds : m <= x
ArgMin(word, names) == {names[i] : i \in {i \in 1..Len(names) : Dist(word, names[i]) = MinDist(word, names)}}

\* the set of acceptable outcomes (any nearest command may be the one suggested)
Allowed(hasWord, word, names) ==
  IF ~hasWord THEN {[type |-> "ErrCommandRequired", kind |-> IF names = <<>> THEN "none" ELSE "enum", names |-> Sorted(names)]}
  ELSE IF names = <<>> THEN {[type |-> "ErrUnknownCommand", kind |-> "none", names |-> <<>>]}
  ELSE {IF 2 * MinDist(word, names) < Len(c)
        THEN [type |-> "ErrUnknownCommand", kind |-> "suggest", names |-> <<c>>]
        ELSE [type |-> "ErrUnknownCommand", kind |-> "enum", names |-> Sorted(names)]
        : c \in ArgMin(word, names)}
=============================================================================
