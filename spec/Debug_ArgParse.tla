--------------------------- MODULE Debug_ArgParse ---------------------------
(* Prints what the specification prescribes for every record of trace.ndjson (replay / diagnosis). *)
EXTENDS Trace_ArgParse
Show(f) == [err |-> f.err, retargs |-> f.retargs, chain |-> f.chain, val |-> f.val, pos |-> f.pos, events |-> f.events,
            isSet |-> f.isSet, grey |-> f.grey, role |-> f.role, out |-> f.out, steps |-> f.steps]
DInit == l = 1 /\ bad = [p \in Props |-> {}] /\ stat = [k \in StatKeys |-> 0] /\ j = <<>>
DNext == /\ l <= Len(TraceRecs) /\ l' = l + 1
         /\ PrintT(<<"SPEC", l, ToJson(Show(Final(TraceRecs[l], TraceRecs[l].argv)))>>)
         /\ j' = Judge(TraceRecs[l]) /\ PrintT(<<"JUDGE", l, j'>>)
         /\ UNCHANGED <<bad, stat>>
DSpec == DInit /\ [][DNext]_<<l, bad, stat, j>>
=============================================================================
