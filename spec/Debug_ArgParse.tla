--------------------------- MODULE Debug_ArgParse ---------------------------
(* Prints what the specification prescribes for every record of trace.ndjson (replay / diagnosis). *)
EXTENDS Trace_ArgParse
Show(f) == [err |-> f.err, retargs |-> f.retargs, chain |-> f.chain, val |-> f.val, pos |-> f.pos, events |-> f.events,
            isSet |-> f.isSet, grey |-> f.grey, role |-> f.role, out |-> f.out, steps |-> f.steps]
DInit == l = 1
DNext == /\ l <= Len(TraceRecs) /\ l' = l + 1
         /\ PrintT(<<"SPEC", l, ToJson(Show(Final(TraceRecs[l], TraceRecs[l].argv)))>>)
         /\ PrintT(<<"JUDGE", l, Judge(TraceRecs[l])>>)
DSpec == DInit /\ [][DNext]_l
=============================================================================
