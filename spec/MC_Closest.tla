----------------------------- MODULE MC_Closest -----------------------------
(* Exhaustive check of the distance function and of the diagnosis rule on short strings. *)
EXTENDS Closest, Json
CONSTANTS Alpha, MaxL, Emit
VARIABLE st

Strings == UNION {[1..n -> Alpha] : n \in 0..MaxL}
NameSets == {<<a>> : a \in Strings \ {E}} \cup {<<a, b>> : a \in Strings \ {E}, b \in Strings \ {E}}

\* two levels: Init picks the word (and the shape), Next the names, so that the workers share the enumeration
Init == \E w \in Strings : st = [stage |-> "seed", s |-> w]
Expand == /\ st.stage = "seed"
          /\ \E t \in Strings, u \in Strings : st' = [stage |-> "pair", s |-> st.s, t |-> t, u |-> u]
Next == Expand
Spec == Init /\ [][Next]_st

Pair == st.stage = "pair"
Metric == Pair =>
  /\ Lev(st.s, st.t) = Lev(st.t, st.s)                                   \* symmetric
  /\ (Lev(st.s, st.t) = 0) <=> (st.s = st.t)                              \* zero only for equal strings
  /\ Lev(st.s, st.u) <= Lev(st.s, st.t) + Lev(st.t, st.u)                 \* triangle inequality
  /\ Lev(st.s, st.t) = LevRec(st.s, st.t)                                 \* agrees with the brute-force definition
  /\ Lev(st.s, st.t) <= (IF Len(st.s) > Len(st.t) THEN Len(st.s) ELSE Len(st.t))
  /\ Lev(st.s, st.t) >= (IF Len(st.s) > Len(st.t) THEN Len(st.s) - Len(st.t) ELSE Len(st.t) - Len(st.s))
\* the diagnosis with the (possibly defective) distance in use: suggestion is a truly nearest name within the threshold
Diagnosis == (Pair /\ st.t # E /\ st.u # E) =>
  \A oc \in Allowed(TRUE, st.s, <<st.t, st.u>>) :
     /\ oc.kind = "suggest" => (/\ \A n \in {st.t, st.u} : Lev(st.s, oc.names[1]) <= Lev(st.s, n)
                                /\ 2 * Lev(st.s, oc.names[1]) < Len(oc.names[1]))
     /\ oc.kind = "enum" => \E n \in {st.t, st.u} : (\A m \in {st.t, st.u} : Lev(st.s, n) <= Lev(st.s, m)) /\ 2 * Lev(st.s, n) >= Len(n)
EmitScn == (Emit /\ Pair /\ st.t # E /\ st.u # E /\ st.t # st.u) =>
              PrintT("SCN " \o ToJson([fam |-> "closest", names |-> <<st.t, st.u>>, hidden |-> <<FALSE, FALSE>>, hasWord |-> TRUE, word |-> st.s]))
=============================================================================
